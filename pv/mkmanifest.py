"""Regenerate MANIFEST.json from the property modules that exist.

    /venv/bin/python -m pv.mkmanifest
"""

import importlib
import json
import os
import sys
from pathlib import Path

ROOT = Path(__file__).resolve().parent.parent
sys.path.insert(0, str(ROOT))
sys.path.insert(0, os.environ.get("PV_REPO", "/repo"))

SETUP = (
    "(/venv/bin/python -c 'import hypothesis' 2>/dev/null || "
    "/venv/bin/pip install --no-index --find-links /opt/veriftools/wheels hypothesis) && "
    "(test -d .deps/atheris || /venv/bin/pip install -q --no-index --find-links /opt/veriftools/wheels --target .deps atheris || true)"
)

NOT_BUILT_REASON = "check not built yet in this round (design in DESIGN.md section 4); not claimed"


def main():
    props = [json.loads(l) for l in (ROOT / "properties.jsonl").read_text().splitlines() if l.strip()]
    checks = []
    na = []
    for p in props:
        pid = p["id"]
        path = ROOT / "pv" / "props" / f"{pid.lower()}.py"
        if not path.exists():
            na.append({"property_id": pid, "reason": NOT_BUILT_REASON})
            continue
        mod = importlib.import_module(f"pv.props.{pid.lower()}")
        if getattr(mod, "NOT_CLAIMED", None):
            na.append({"property_id": pid, "reason": mod.NOT_CLAIMED})
            continue
        checks.append(
            {
                "property_id": pid,
                "quick_cmd": f"./check {pid} --tier quick",
                "thorough_cmd": f"./check {pid} --tier thorough",
                "evidence_file": f"evidence/{pid}.json",
                "replay_cmd_template": f"./check {pid} --replay {{path}}",
                "engine": "pv",
                "level_claimed": {
                    "category": getattr(mod, "LEVEL", "exploration"),
                    "text": getattr(mod, "LEVEL_TEXT", None) or (
                        "Exploration by generated-input search: " + mod.TECHNIQUE + ". The property held (or failed only in "
                        "the listed known findings) on every case generated within the stated bounds; exhaustive only where "
                        "the evidence says so; not a proof of absence. Domain and oracle: " + mod.RULE),
                    "design_ref": f"DESIGN.md section 4, {pid}",
                },
                "level_note": "; ".join(getattr(mod, "ASSUMPTIONS", [])) or "none",
                "technique": mod.TECHNIQUE,
            }
        )
    manifest = {
        "version": 1,
        "setup_cmd": SETUP,
        "hooks": {
            "guard": "PYANALYZE_VERIF",
            "enable": "no source hooks are needed: checks import pyanalyze from /repo's working tree "
                      "(PV_REPO overrides the root) and observe it through public APIs and a harness-side "
                      "NameCheckVisitor subclass",
            "baseline_off_cmd": "cd /repo && /venv/bin/python -m pytest -ra -q -p no:cacheprovider --timeout=900 --continue-on-collection-errors",
            "source_commits": [],
            "add_only": True,
        },
        "engines": [
            {
                "name": "pv",
                "path": "pv/",
                "serves_properties": [c["property_id"] for c in checks],
                "kind_free_text": "Hypothesis generators / bounded exhaustive enumeration with explicit oracles "
                                  "(reference models, CPython differential, metamorphic relations), 16-way sharded",
            }
        ],
        "checks": checks,
        "not_applicable": na,
        "notes": "Every check: exit 0 = held on everything explored (KNOWN-FINDING lines allowed), exit 1 + VIOLATION "
                 "line = new root cause, exit 2 = harness error. VERIF_SEED selects the seed. Known findings and "
                 "fixed defects are in known_findings.json.",
    }
    (ROOT / "MANIFEST.json").write_text(json.dumps(manifest, indent=1) + "\n")
    try:
        import jsonschema

        jsonschema.validate(manifest, json.loads(Path("/root/.vp/MANIFEST.schema.json").read_text()))
        print("MANIFEST.json valid;", len(checks), "checks,", len(na), "not claimed")
    except ImportError:
        print("MANIFEST.json written (jsonschema not available to validate);", len(checks), "checks")


if __name__ == "__main__":
    main()

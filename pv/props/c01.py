"""C01 - inferred values are sound with respect to execution."""

from __future__ import annotations

import ast
import re
import warnings

from hypothesis import given, strategies as st

from pv import gen_prog, member, runner, sut
from pv.universe import NS

warnings.filterwarnings("ignore")

ID = "C01"
TECHNIQUE = "property-based differential testing: type-directed program generator (Hypothesis), each program checked by pyanalyze and executed instrumented under CPython; membership model as oracle"
RULE = (
    "modules of 1-3 annotated functions generated well-typed by construction (assignments, if/elif/else, for, "
    "while, break/continue, try/except/finally, with, match, assert, walrus, return; conditions from the narrowing "
    "catalogue; expressions: literals, variables, arithmetic, comparisons, len, subscripts, slices, IfExp, bool ops, "
    "method calls, generic helper calls), executed on up to 8 argument tuples from the declared parameter types x 4 "
    "scripts for the opaque cond()/call(). Oracle: every value a Name/Subscript/Call/BinOp/IfExp/Attribute/Compare/"
    "BoolOp/UnaryOp node evaluates to is a member of the union of the Values pyanalyze inferred for that node; "
    "functions in which pyanalyze reported a diagnostic are discarded (blame rule). Non-trivial = a (node, value) "
    "check whose inferred type has no top-level Any (distinct by function source, node index, value)."
    ' Since round d also: tuple / list displays with one starred part between single elements of different types indexed with literals -5..5, unpacking assignments (pair, head/rest, rest/last, nested, starred targets), pair / enumerate / items loops.'
)
ASSUMPTIONS = [
    "membership model pv/member.py; Unknown verdicts are skipped",
    "no container is mutated and no global is written (the property's own exclusion)",
    "functions with any pyanalyze diagnostic make no promise and are discarded (counted)",
]
MAX_ABSTAIN = 0.6  # discarded functions are counted per function, evaluations per node check

# Lints that do not make the function ill-typed.  The "verdict" codes (impossible_pattern,
# type_always_true, unsafe_comparison) are claims the execution can contradict: the function stays
# in, and a value reaching a branch inferred Never is reported as usual.
BENIGN = {"unused_variable", "unused_assignment", "impossible_pattern", "type_always_true", "value_always_true",
          "unsafe_comparison", "missing_return", "possibly_undefined_name"}
SCRIPTS = [(), (1,), (0, 1, 1)]


def enclosing_info(tree):
    """node id -> (chain of enclosing compound statement kinds, skeleton of nearest test)."""
    info = {}

    def skel(test):
        s = ast.unparse(test)
        s = re.sub(r"\b[px]\d+\b", "_", s)
        s = re.sub(r"\"[^\"]*\"|'[^']*'", "S", s)
        s = re.sub(r"\b\d+\b", "N", s)
        return s[:60]

    def go(node, chain, test):
        for child in ast.iter_child_nodes(node):
            c2, t2 = chain, test
            if isinstance(node, (ast.If, ast.While)) and child in node.body + node.orelse:
                c2 = chain + [type(node).__name__ + (".else" if child in node.orelse else "")]
                t2 = ("not " if child in node.orelse else "") + skel(node.test)
            elif isinstance(node, ast.IfExp) and child is not node.test:
                t2 = ("not " if child is node.orelse else "") + skel(node.test)
            elif isinstance(node, ast.BoolOp):
                t2 = skel(node)
            elif isinstance(node, (ast.For, ast.Try, ast.With)) and not isinstance(child, ast.expr):
                c2 = chain + [type(node).__name__]
            elif isinstance(node, ast.match_case):
                c2 = chain + ["match"]
                t2 = "case " + re.sub(r"\b[px]\d+\b", "_", ast.unparse(node.pattern))[:40]
            info[id(child)] = (c2, t2)
            go(child, c2, t2)
        # statements following an assert / early-return if are narrowed too: approximate by
        # remembering the most recent assert in a block
        if hasattr(node, "body") and isinstance(node.body, list):
            last = None
            for stmt in node.body:
                if last is not None:
                    for n in ast.walk(stmt):
                        if id(n) in info and info[id(n)][1] is None:
                            info[id(n)] = (info[id(n)][0], last)
                if isinstance(stmt, ast.Assert):
                    last = "assert " + skel(stmt.test)
                elif isinstance(stmt, ast.If) and stmt.body and isinstance(stmt.body[-1], (ast.Return, ast.Continue, ast.Break, ast.Raise)):
                    last = "after-if-return " + skel(stmt.test)
    go(tree, [], None)
    return info


_checker = [None, 0]


def shared_checker():
    if _checker[0] is None or _checker[1] > 300:
        _checker[0], _checker[1] = sut.new_checker(), 0
    _checker[1] += 1
    return _checker[0]


def cross_type_equal(v, ty):
    """Would v be a member if literal equality ignored the type (True == 1, (True,) == (1,))?"""
    orig = member.lit_eq

    def relaxed(o, l):
        if orig(o, l):
            return True
        try:
            return bool(o == l) and isinstance(o, (bool, int, float, complex, tuple, list, str, bytes, frozenset, set, dict))
        except Exception:
            return False
    member.lit_eq = relaxed
    try:
        return member.mem(v, ty) is True
    finally:
        member.lit_eq = orig


def numeric_literal_tests(fd):
    """Does the function compare something with an int literal via ==, !=, in, not in or a
    match value pattern?"""
    for n in ast.walk(fd):
        if isinstance(n, ast.Compare) and any(isinstance(op, (ast.Eq, ast.NotEq, ast.In, ast.NotIn)) for op in n.ops):
            if any(isinstance(c, ast.Constant) and type(c.value) in (int, float) for c in ast.walk(n)):
                return True
        if isinstance(n, ast.MatchValue) and isinstance(n.value, ast.Constant) and type(n.value.value) in (int, float):
            return True
    return False


def compared_cross_type(fd, node, v):
    """Is the failing name compared (==, !=, in, not in, match value) somewhere in the function with a
    literal that equals the runtime value v but has another type (True vs 1, 1 vs 1.0)?"""
    names = {n.id for n in ast.walk(node) if isinstance(n, ast.Name)}
    if not names or not isinstance(v, (bool, int, float)):
        return False

    def hit(consts):
        for c in consts:
            if isinstance(c, ast.Constant) and isinstance(c.value, (bool, int, float)):
                try:
                    if c.value == v and type(c.value) is not type(v):
                        return True
                except Exception:
                    pass
        return False
    for n in ast.walk(fd):
        if isinstance(n, ast.Compare) and any(isinstance(op, (ast.Eq, ast.NotEq, ast.In, ast.NotIn)) for op in n.ops):
            if names & {x.id for x in ast.walk(n) if isinstance(x, ast.Name)} and hit(ast.walk(n)):
                return True
        if isinstance(n, ast.Match) and names & {x.id for x in ast.walk(n.subject) if isinstance(x, ast.Name)}:
            if hit(x.value for x in ast.walk(n) if isinstance(x, ast.MatchValue)):
                return True
    return False


def jump_in_try_or_with(fd):
    for n in ast.walk(fd):
        if isinstance(n, (ast.Try, ast.With)):
            if any(isinstance(j, (ast.Break, ast.Continue)) for j in ast.walk(n)):
                return True
    return False


def related_conditions(fdef, node):
    """Skeletons of the conditions in the function that mention a variable of the failing node."""
    names = {n.id for n in ast.walk(node) if isinstance(n, ast.Name)}
    out = set()

    def skel(test):
        s_ = ast.unparse(test)
        s_ = re.sub(r"\b[px]\d+\b", "_", s_)
        s_ = re.sub(r"\"[^\"]*\"|'[^']*'", "S", s_)
        s_ = re.sub(r"\b\d+\b", "N", s_)
        return s_[:50]
    for n in ast.walk(fdef):
        tests = []
        if isinstance(n, (ast.If, ast.While, ast.IfExp, ast.Assert)):
            tests.append(n.test)
        elif isinstance(n, ast.match_case):
            tests.append(n.pattern)
        elif isinstance(n, ast.Match):
            if names & {x.id for x in ast.walk(n.subject) if isinstance(x, ast.Name)}:
                for c in n.cases:
                    out.add("case " + skel(c.pattern))
            continue
        for t in tests:
            if isinstance(t, ast.AST) and names & {x.id for x in ast.walk(t) if isinstance(x, ast.Name)}:
                out.add(skel(t))
    return sorted(out)


def run_module(funcs, col=None):
    """funcs: list of {"name","src","ptypes"}.  Returns list of failures (key, what, func)."""
    src = gen_prog.HEADER + "\n\n".join(f["src"] for f in funcs) + "\n"
    res = sut.check_source(src, collect_values=True, checker=shared_checker())
    if res.raised is not None:
        raise res.raised
    tree = res.tree
    nodes = list(ast.walk(tree))
    # blame rule
    fdefs = {n.name: n for n in tree.body if isinstance(n, ast.FunctionDef)}
    bad_funcs = {}
    for d in res.diags:
        if d.code in BENIGN:
            continue
        for name, fd in fdefs.items():
            if fd.lineno <= (d.lineno or 0) <= fd.end_lineno:
                bad_funcs.setdefault(name, []).append(f"{d.code}: {d.description[:80]}")
    info = enclosing_info(tree)
    code, by_k = gen_prog.instrument(src)
    tys = {}
    values_by_k = {}
    for k, n in enumerate(nodes):
        if isinstance(n, gen_prog.CHECKED):
            vals = res.values_of(n)
            if vals:
                values_by_k[k] = vals
    failures = []
    seen = set()
    current = {"func": None, "args": None}
    stats = {"checks": 0, "any": 0, "unknown": 0, "unvisited": 0}

    probe = {"k": None, "failed": False}
    pending_cross = []

    def rec(k, v):
        vals = values_by_k.get(k)
        if probe["k"] is not None:
            # probe mode: only watch one node
            if k == probe["k"] and vals is not None:
                if k not in tys:
                    tys[k] = member.from_value(sut.union_of(vals))
                if not member.has_top_any(tys[k]) and member.mem(v, tys[k]) is False:
                    probe["failed"] = True
            return v
        if vals is None:
            stats["unvisited"] += 1
            return v
        if k not in tys:
            tys[k] = member.from_value(sut.union_of(vals))
        ty = tys[k]
        if member.has_top_any(ty):
            stats["any"] += 1
            return v
        stats["checks"] += 1
        m = member.mem(v, ty)
        if m is None:
            stats["unknown"] += 1
            if col is not None:
                col.skipped += 1
            return v
        fname = current["func"]
        if col is not None:
            try:
                vrep = repr(v)[:40]
            except Exception:
                vrep = type(v).__name__
            col.case(nontrivial_id=(fname_src.get(fname, ""), k, vrep))
        if m is False and (fname, k) not in seen:
            seen.add((fname, k))
            node = nodes[k]
            chain, test = info.get(id(node), ([], None))
            union = sut.union_of(vals)
            never = " (inferred Never: pyanalyze considers this unreachable)" if ty == member.NEVER else ""
            conds = related_conditions(fdefs[fname], node)
            key = f"{type(node).__name__}|inferred:{type(union).__name__ if ty != member.NEVER else 'Never'}|conds:{';'.join(conds)[:120]}"
            fd = fdefs[fname]
            args_now = current["args"] or ()
            coarse_cross = (isinstance(v, bool) or any(_has_bool(a) for a in args_now)) and numeric_literal_tests(fd)
            if cross_type_equal(v, ty) or compared_cross_type(fd, node, v):
                # True == 1: equality-based narrowing / KnownValue equality ignore the bool-int distinction
                key = "cross-type-equality-narrowing"
            elif any("isinstance(_, float)" in c or "isinstance(_, complex)" in c for c in conds) or (
                    any(isinstance(a, (bool, int)) for a in args_now) and "isinstance(" in ast.unparse(fd) and re.search(r"isinstance\(\w+, \(?(float|complex)", ast.unparse(fd))):
                key = "isinstance-numeric-promotion"
            elif jump_in_try_or_with(fd):
                key = "jump-inside-try-or-with"
            elif any(isinstance(m, ast.Match) for i in ast.walk(fd) if isinstance(i, (ast.If, ast.While, ast.For, ast.Try, ast.With, ast.Match))
                     for m in ast.walk(i) if m is not i):
                key = "match-inside-narrowed-branch"
            entry = (key, f"`{ast.unparse(node)}` (line {node.lineno}) evaluated to {v!r} which is not in the inferred type "
                     f"{union}{never}; call {fname}{current['args']!r}", fname)
            if coarse_cross and key != "cross-type-equality-narrowing":
                pending_cross.append((entry, k, args_now, tuple(current.get("script") or ())))
            else:
                failures.append(entry)
        return v

    fname_src = {f["name"]: f["src"] for f in funcs}
    ns = {"__pv_rec": rec}
    import pv_vocab

    exec(code, ns)
    for f in funcs:
        name = f["name"]
        if name in bad_funcs:
            if col is not None:
                col.discarded += 1
                col.classes["discarded:" + bad_funcs[name][0].split(":")[0]] += 1
            continue
        fn = ns[name]
        for args in gen_prog.arg_tuples(f["ptypes"], 6):
            for sc in SCRIPTS:
                pv_vocab._script[:] = list(sc)
                current["func"], current["args"], current["script"] = name, args, sc
                try:
                    fn(*args)
                except Exception:
                    pass  # runtime errors only truncate the trace
    # A failure seen only with a bool argument in a function that tests against numeric literals:
    # re-execute the same call with every bool replaced by the equal int (True -> 1).  Control flow
    # is identical (True == 1), so if the failure disappears it is the bool/int equality family.
    for entry, k, args, sc in pending_cross:
        probe["k"], probe["failed"] = k, False
        pv_vocab._script[:] = list(sc)
        try:
            ns[entry[2]](*[_debool(a) for a in args])
        except Exception:
            pass
        probe["k"] = None
        ptypes = next((f["ptypes"] for f in funcs if f["name"] == entry[2]), [])
        if probe["failed"] and not any(t == "bool" for t in ptypes):
            failures.append(entry)
        else:
            failures.append(("cross-type-equality-narrowing", entry[1] + " [disappears when the bool argument is replaced by the equal int]", entry[2]))
    if col is not None:
        for k2, v2 in stats.items():
            col.extra[k2] = col.extra.get(k2, 0) + v2
    return failures


def _has_bool(a):
    if isinstance(a, bool):
        return True
    if isinstance(a, (list, tuple, set, frozenset)):
        return any(_has_bool(x) for x in a)
    if isinstance(a, dict):
        return any(_has_bool(x) for x in a.values()) or any(_has_bool(x) for x in a)
    return False


def _debool(a):
    if isinstance(a, bool):
        return int(a)
    if isinstance(a, list):
        return [_debool(x) for x in a]
    if isinstance(a, tuple):
        return tuple(_debool(x) for x in a)
    if isinstance(a, dict):
        return {_debool(k): _debool(v) for k, v in a.items()}
    return a


@st.composite
def modules(draw, depth=2):
    n = draw(st.integers(1, 3))
    return [draw(gen_prog.function(f"f{i}", depth)) for i in range(n)]


def shards(tier, seed):
    n = 16
    return [{"index": i, "modules": 250 if tier == "quick" else 4000, "depth": 2 if tier == "quick" else 3} for i in range(n)]


def run_shard(spec):
    col = runner.Collector(spec)
    seed = runner.mix_seed(spec["seed"], ID, spec["name"])

    def make():
        @given(modules(spec["depth"]))
        def t(funcs):
            fails = run_module(funcs, col)
            col.sample(funcs[0]["src"])
            for key, what, fname in fails:
                f = next(x for x in funcs if x["name"] == fname)
                col.fail(key, what, {"funcs": [f]}, raise_new=True)
        return t

    runner.drive(col, make, seed, spec["modules"], replay=replay)
    return col.result()


def replay_all(case):
    return [{"key": k, "what": w, "case": case} for k, w, _ in run_module(case["funcs"])]


def replay(case):
    for f in replay_all(case):
        return f
    return None

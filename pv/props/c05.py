"""C05 - argument-to-parameter binding agrees with CPython."""

from __future__ import annotations

import itertools

from hypothesis import given, strategies as st

from pv import runner, sut

ID = "C05"
TECHNIQUE = "differential testing against CPython's own argument binding: bounded exhaustive enumeration of def headers x call shapes, Hypothesis sampling beyond the bound"
RULE = (
    "def headers over {positional-only, positional-or-keyword, *args, keyword-only, **kwargs} with every legal "
    "default pattern (names a..f), exhaustive up to the tier's parameter bound and Hypothesis-sampled up to 6; "
    "call shapes: 0-3 positional literals, keyword subsets of the parameter names plus a foreign name zz, "
    "*() / *(1,) / *(1,2), **{} / **{'a':1} / **{'zz':1} / two-key dict literals, a positional after the star; "
    "each signature through a module-level def (runtime signature) and a nested def (AST). Oracle: the call "
    "line carries incompatible_call <=> calling the real function raises TypeError. Unknown-length star-arguments "
    "(list[int], tuple[int, ...], dict[str, int]): accepted => some expansion binds, rejected => no expansion "
    "taking >=1 element from every star-argument binds. Non-trivial = call using >=2 argument sources or "
    "reaching a parameter that could be filled two ways (distinct by header+call text)."
    ' A methods mode binds every header with <= 2 (thorough 3) parameters as instance / static / class method of a base class through 10 receiver routes (instance, subclass instance, subclass, module-level subclass instance, self.sm() inside a subclass method).'
)
ASSUMPTIONS = [
    "CPython's binding is observed by calling `def f(...): pass`; a TypeError can only come from binding",
    "parameter names never start with a double underscore (pyanalyze documents those as positional-only)",
]

NAMES = "abcdef"


# ----------------------------------------------------------------- signatures


def signatures(max_params):
    """Yield lists of (kind, name, has_default); kind in po, pk, va, ko, vk."""
    for n in range(0, max_params + 1):
        for n_po in range(0, n + 1):
            for n_pk in range(0, n - n_po + 1):
                rest = n - n_po - n_pk
                for has_va in (0, 1):
                    if has_va > rest:
                        continue
                    for has_vk in (0, 1):
                        n_ko = rest - has_va - has_vk
                        if n_ko < 0:
                            continue
                        if n_ko > 0 and not has_va:
                            pass  # bare * separator
                        npos = n_po + n_pk
                        for n_def in range(0, npos + 1):
                            for ko_defs in itertools.product((0, 1), repeat=n_ko):
                                params = []
                                names = iter(NAMES)
                                for i in range(npos):
                                    kind = "po" if i < n_po else "pk"
                                    params.append((kind, next(names), i >= npos - n_def))
                                if has_va:
                                    params.append(("va", "args", False))
                                for d in ko_defs:
                                    params.append(("ko", next(names), bool(d)))
                                if has_vk:
                                    params.append(("vk", "kwargs", False))
                                yield params


def header(params, name="f"):
    parts = []
    n_po = sum(1 for k, _, _ in params if k == "po")
    seen_po = 0
    star_done = False
    for kind, nm, d in params:
        if kind == "po":
            parts.append(nm + ("=0" if d else ""))
            seen_po += 1
            if seen_po == n_po:
                parts.append("/")
        elif kind == "pk":
            parts.append(nm + ("=0" if d else ""))
        elif kind == "va":
            parts.append("*args")
            star_done = True
        elif kind == "ko":
            if not star_done:
                parts.append("*")
                star_done = True
            parts.append(nm + ("=0" if d else ""))
        else:
            parts.append("**kwargs")
    return f"def {name}({', '.join(parts)}): pass"


def kinds_key(params):
    return ",".join(k + ("d" if d else "") for k, _, d in params) or "-"


# ----------------------------------------------------------------- call shapes

STARS = ["", "*()", "*(1,)", "*(1, 2)"]


def dstars(names):
    n0 = names[0] if names else "a"
    n1 = names[1] if len(names) > 1 else "b"
    return ["", "**{}", f'**{{"{n0}": 1}}', '**{"zz": 1}', f'**{{"{n0}": 1, "{n1}": 2}}']


def call_shapes(params, max_pos=3, max_kw=2, full=True):
    names = [nm for k, nm, _ in params if k in ("po", "pk", "ko")]
    kwnames = names + ["zz"]
    for npos in range(0, max_pos + 1):
        pos = [str(i + 1) for i in range(npos)]
        for nk in range(0, max_kw + 1):
            for kws in itertools.combinations(kwnames, nk):
                kwtxt = [f"{k}=9" for k in kws]
                for star in STARS:
                    for ds in dstars(names):
                        args = pos + ([star] if star else []) + kwtxt + ([ds] if ds else [])
                        yield ", ".join(args), feature(npos, kws, star, ds, False)
                        if full and star and npos <= 1 and not kws:
                            args = pos + [star, "7"] + ([ds] if ds else [])
                            yield ", ".join(args), feature(npos + 1, kws, star, ds, True)
                        if full and ds and kws and not star:
                            args = pos + [ds] + kwtxt
                            yield ", ".join(args), feature(npos, kws, star, ds, False)


def feature(npos, kws, star, ds, after):
    f = []
    if npos:
        f.append("pos")
    if kws:
        f.append("kw" + ("+zz" if "zz" in kws else ""))
    if star:
        f.append("star" + ("-empty" if star == "*()" else ""))
    if after:
        f.append("pos-after-star")
    if ds:
        f.append("dstar" + ("-empty" if ds == "**{}" else ("+zz" if "zz" in ds else "")))
    return "+".join(f) or "none"


def binds(fn, call_args):
    try:
        eval(f"f({call_args})", {"f": fn})
        return True
    except TypeError:
        return False


def make_fn(params):
    ns = {}
    exec(header(params), ns)
    return ns["f"]


# ----------------------------------------------------------------- program harness


def build_module(items):
    """items: list of (params, [call_args...]).  Returns (src, linemap) where linemap maps
    line -> (item index, call index, route)."""
    lines = []
    lmap = {}
    for i, (params, calls) in enumerate(items):
        lines.append(header(params, f"g{i}"))
    for i, (params, calls) in enumerate(items):
        lines.append(f"def outer{i}():")
        lines.append("    " + header(params, "loc"))
        for j, c in enumerate(calls):
            lines.append(f"    g{i}({c})")
            lmap[len(lines)] = (i, j, "runtime")
            lines.append(f"    loc({c})")
            lmap[len(lines)] = (i, j, "ast")
    return "\n".join(lines) + "\n", lmap


def run_items(items, checker):
    src, lmap = build_module(items)
    res = sut.check_source(src, checker=checker)
    if res.raised is not None:
        raise res.raised
    diagnosed = {}
    other = {}
    for d in res.diags:
        if d.lineno in lmap:
            if d.code == "incompatible_call":
                diagnosed[d.lineno] = d.description
            elif d.code == "internal_error":
                other[d.lineno] = d.description[-200:]
            elif d.code not in ("unused_variable",):
                other.setdefault(d.lineno, f"{d.code}: {d.description}")
    return lmap, diagnosed, other


def judge(items, checker, col=None):
    """items: list of (params, [(call_args, feature)...])."""
    plain = [(p, [c for c, _ in calls]) for p, calls in items]
    lmap, diagnosed, other = run_items(plain, checker)
    fns = [make_fn(p) for p, _ in items]
    expected = {}
    fails = []
    for line, (i, j, route) in lmap.items():
        params, calls = items[i]
        call, feat = calls[j]
        if (i, j) not in expected:
            expected[(i, j)] = binds(fns[i], call)
        ok = expected[(i, j)]
        diag = line in diagnosed
        if col is not None:
            nontriv = feat.count("+") >= 1
            col.case(nontrivial_id=(header(params), call, route) if nontriv else None,
                     label=[f"route:{route}", "agree-accept" if ok and not diag else "agree-reject" if (not ok and diag) else ("FP" if diag else "FN")])
        if line in other and "internal_error" in str(other[line]):
            fails.append((f"internal-error|{route}|{kinds_key(params)}", f"{header(params)}; f({call}): {other[line]}", params, call))
            continue
        if diag == (not ok):
            continue
        kind = "FP" if diag else "FN"
        detail = skeleton(diagnosed[line]) if diag else f"sig={kinds_key(params)}|call={feat}"
        fails.append((f"{kind}|{route}|{detail}",
                      f"{header(params)}; f({call}) [{route} signature]: CPython {'binds' if ok else 'raises TypeError'}, "
                      f"pyanalyze {'reports ' + diagnosed[line] if diag else 'reports nothing'}", params, call))
    return fails


def skeleton(msg):
    import re

    msg = re.sub(r"In call to [^:]*: ", "", msg)
    msg = re.sub(r"'[^']*'", "'_'", msg)
    msg = re.sub(r"\d+", "N", msg)
    return msg[:90]


# ----------------------------------------------------------------- unknown-length star arguments

UNKNOWN_ARGS = ["*xs", "*ts", "**kw"]


def unknown_calls(params):
    names = [nm for k, nm, _ in params if k in ("po", "pk", "ko")]
    for npos in (0, 1, 2):
        pos = [str(i + 1) for i in range(npos)]
        for kws in [()] + [(n,) for n in names[:2]]:
            kwtxt = [f"{k}=9" for k in kws]
            for star in ("", "*xs", "*ts"):
                for ds in ("", "**kw"):
                    if not star and not ds:
                        continue
                    yield ", ".join(pos + ([star] if star else []) + kwtxt + ([ds] if ds else [])), (npos, kws, star, ds)


def expansions(params, shape, min_each):
    npos, kws, star, ds = shape
    names = [nm for k, nm, _ in params if k in ("po", "pk", "ko")] + ["zz"]
    star_lens = range(min_each, 5) if star else [0]
    if ds:
        key_sets = [c for n in range(min_each, 5) for c in itertools.combinations(names, n)]
    else:
        key_sets = [()]
    for sl in star_lens:
        for ks in key_sets:
            pos = [str(i + 1) for i in range(npos)] + ["5"] * sl
            kwtxt = [f"{k}=9" for k in kws]
            if ks:
                d = "**{" + ", ".join(f'"{k}": 1' for k in ks) + "}"
                yield ", ".join(pos + kwtxt + [d])
            else:
                yield ", ".join(pos + kwtxt)


def judge_unknown(items, checker, col=None):
    """items: list of (params, [(call, shape)])."""
    lines = []
    lmap = {}
    for i, (params, calls) in enumerate(items):
        lines.append(header(params, f"g{i}"))
    for i, (params, calls) in enumerate(items):
        lines.append(f"def outer{i}(xs: list[int], ts: tuple[int, ...], kw: dict[str, int]):")
        lines.append("    " + header(params, "loc"))
        for j, (c, shape) in enumerate(calls):
            lines.append(f"    g{i}({c})")
            lmap[len(lines)] = (i, j, "runtime")
            lines.append(f"    loc({c})")
            lmap[len(lines)] = (i, j, "ast")
    res = sut.check_source("\n".join(lines) + "\n", checker=checker)
    if res.raised is not None:
        raise res.raised
    diagnosed = {d.lineno: d.description for d in res.diags if d.code == "incompatible_call" and d.lineno in lmap}
    fails = []
    cache = {}
    for line, (i, j, route) in lmap.items():
        params, calls = items[i]
        call, shape = calls[j]
        if (i, j) not in cache:
            fn = make_fn(params)
            some = any(binds(fn, e) for e in expansions(params, shape, 0))
            some_nonempty = any(binds(fn, e) for e in expansions(params, shape, 1))
            cache[(i, j)] = (some, some_nonempty)
        some, some_nonempty = cache[(i, j)]
        diag = line in diagnosed
        if col is not None:
            col.case(nontrivial_id=("unk", header(params), call, route),
                     label=[f"unknown-length:{route}", "accepted" if not diag else "rejected"])
        npos, kws, star, ds = shape
        feat = "+".join(x for x in (("pos" if npos else ""), ("kw" if kws else ""), star.strip("*"), ds.strip("*")) if x)
        po_names = {nm for k, nm, _ in params if k == "po"}
        has_vk = any(k == "vk" for k, _, _ in params)
        if not diag and not some:
            if ds and not has_vk and any(k in po_names for k in kws):
                reason = "posonly-as-keyword+dstar"
            else:
                reason = f"sig={kinds_key(params)}|call={feat}"
            fails.append((f"FN-unknown|{reason}",
                          f"{header(params)}; f({call}) [{route}]: accepted although no expansion (lengths 0-4) binds", params, call))
        if diag and some_nonempty:
            fails.append((f"FP-unknown|{skeleton(diagnosed[line])}",
                          f"{header(params)}; f({call}) [{route}]: rejected ({diagnosed[line]}) although an expansion taking >=1 element "
                          f"from every star-argument binds", params, call))
    return fails


# ----------------------------------------------------------------- shards


STAR_CONST_HEADER = [
    "import collections",
    'NT0 = collections.namedtuple("NT0", [])()',
    'NT1 = collections.namedtuple("NT1", ["p"])(1)',
    'NT2 = collections.namedtuple("NT2", ["p", "q"])(1, 2)',
    "class TSub(tuple):",
    "    pass",
    "TS2 = TSub((1, 2))",
    "class LSub(list):",
    "    pass",
    "LS1 = LSub([1])",
    "T3 = (1, 2, 3)",
    "FS1 = frozenset({1})",
]
STAR_CONSTS = ["NT0", "NT1", "NT2", "TS2", "LS1", "T3", "FS1"]


def star_const_calls(params):
    names = [nm for k, nm, _ in params if k in ("po", "pk", "ko")]
    for npos in range(0, 3):
        pos = [str(i + 1) for i in range(npos)]
        for c in STAR_CONSTS:
            for kw in [None] + names[:2] + ["zz"]:
                args = pos + ["*" + c] + ([f"{kw}=9"] if kw else [])
                yield ", ".join(args), "star-constant:" + c + ("+pos" if npos else "") + ("+kw" if kw else "")


def judge_star_constants(items, checker, col=None):
    """A star argument that is a module-level constant of known length whose class is a subclass of tuple / list
    (namedtuple instances, user subclasses), a plain tuple or a frozenset: it supplies exactly len(constant) positionals."""
    lines = list(STAR_CONST_HEADER)
    lmap = {}
    for i, (params, calls) in enumerate(items):
        lines.append(header(params, f"g{i}"))
    for i, (params, calls) in enumerate(items):
        lines.append(f"def outer{i}():")
        for j, (c, _) in enumerate(calls):
            lines.append(f"    g{i}({c})")
            lmap[len(lines)] = (i, j)
    res = sut.check_source("\n".join(lines) + "\n", checker=checker)
    if res.raised is not None:
        raise res.raised
    diagnosed = {d.lineno: d.description for d in res.diags if d.lineno in lmap and d.code == "incompatible_call"}
    ns = {}
    exec("\n".join(STAR_CONST_HEADER), ns)
    fails = []
    for line, (i, j) in lmap.items():
        params, calls = items[i]
        call, feat = calls[j]
        fn = make_fn(params)
        try:
            eval(f"f({call})", dict(ns, f=fn))
            ok = True
        except TypeError:
            ok = False
        diag = line in diagnosed
        if col is not None:
            col.case(nontrivial_id=(header(params), call, "star-constant"), label=["route:star-constant", "agree" if diag == (not ok) else ("FP" if diag else "FN")])
        if diag == (not ok):
            continue
        kind = "FP" if diag else "FN"
        detail = skeleton(diagnosed[line]) if diag else f"sig={kinds_key(params)}|call={feat.split('+')[0]}"
        fails.append((f"{kind}|star-constant|{detail}",
                      f"{header(params)}; f({call}) with {call.split('*')[1].split(',')[0]} a module-level constant: CPython "
                      f"{'binds' if ok else 'raises TypeError'}, pyanalyze {'reports ' + diagnosed[line] if diag else 'reports nothing'}", params, call))
    return fails


METHOD_ROUTES = ["inst.m", "subinst.m", "inst.sm", "subinst.sm", "Sub.sm", "subinst.cm", "Sub.cm", "SUBINST.sm", "SUBINST.m", "self.sm-in-sub"]


def build_method_module(items):
    """The same header as an instance method, a static method and a class method of a base class, called through an
    instance, through an instance of a subclass that inherits them, through the subclass itself, through a
    module-level subclass instance and as self.sm(...) inside a method of the subclass."""
    lines, lmap = [], {}
    for i, (params, calls) in enumerate(items):
        lines.append(f"class K{i}:")
        lines.append("    " + header([("po" if any(k == "po" for k, _, _ in params) else "pk", "self", False)] + list(params), "m"))
        lines.append("    @staticmethod")
        lines.append("    " + header(params, "sm"))
        lines.append("    @classmethod")
        lines.append("    " + header([("po" if any(k == "po" for k, _, _ in params) else "pk", "cls", False)] + list(params), "cm"))
        lines.append(f"class Sub{i}(K{i}):")
        lines.append("    def caller(self):")
        for j, c in enumerate(calls):
            lines.append(f"        self.sm({c})")
            lmap[len(lines)] = (i, j, "self.sm-in-sub")
        lines.append("        pass")
        lines.append(f"SUBINST{i} = Sub{i}()")
    for i, (params, calls) in enumerate(items):
        lines.append(f"def outer{i}(inst: K{i}, subinst: Sub{i}):")
        for j, c in enumerate(calls):
            for route in METHOD_ROUTES[:-1]:
                recv, meth = route.split(".")
                recv = {"Sub": f"Sub{i}", "SUBINST": f"SUBINST{i}"}.get(recv, recv)
                lines.append(f"    {recv}.{meth}({c})")
                lmap[len(lines)] = (i, j, route)
    return "\n".join(lines) + "\n", lmap


def judge_methods(items, checker, col=None):
    src, lmap = build_method_module([(p, [c for c, _ in calls]) for p, calls in items])
    res = sut.check_source(src, checker=checker)
    if res.raised is not None:
        raise res.raised
    diagnosed = {d.lineno: d.description for d in res.diags if d.lineno in lmap and d.code == "incompatible_call"}
    internal = {d.lineno: d.description[-200:] for d in res.diags if d.lineno in lmap and d.code == "internal_error"}
    fns = [make_fn(p) for p, _ in items]
    expected, fails = {}, []
    for line, (i, j, route) in lmap.items():
        params, calls = items[i]
        call, feat = calls[j]
        if (i, j) not in expected:
            expected[(i, j)] = binds(fns[i], call)
        ok, diag = expected[(i, j)], line in diagnosed
        if col is not None:
            col.case(nontrivial_id=(header(params), call, route) if feat.count("+") >= 1 else None,
                     label=[f"route:{route}", "agree-accept" if ok and not diag else "agree-reject" if (not ok and diag) else ("FP" if diag else "FN")])
        if line in internal:
            fails.append((f"internal-error|{route}|{kinds_key(params)}", f"{header(params)}; {route}({call}): {internal[line]}", params, call))
            continue
        if diag == (not ok):
            continue
        kind = "FP" if diag else "FN"
        detail = skeleton(diagnosed[line]) if diag else f"sig={kinds_key(params)}|call={feat}"
        fails.append((f"{kind}|{route}|{detail}",
                      f"{header(params)} as a method; {route}({call}): CPython {'binds' if ok else 'raises TypeError'}, "
                      f"pyanalyze {'reports ' + diagnosed[line] if diag else 'reports nothing'}", params, call))
    return fails


def shards(tier, seed):
    n = 16
    bound = 3 if tier == "quick" else 4
    out = [{"mode": "exhaustive", "index": i, "of": n, "bound": bound} for i in range(n)]
    out += [{"mode": "sampled", "index": i, "examples": 25 if tier == "quick" else 600} for i in range(n)]
    out += [{"mode": "unknown", "index": i, "of": n, "bound": 3 if tier == "quick" else 4} for i in range(n)]
    out += [{"mode": "methods", "index": i, "of": 8, "bound": 2 if tier == "quick" else 3} for i in range(8)]
    out += [{"mode": "star-constants", "index": i, "of": 4, "bound": 3 if tier == "quick" else 4} for i in range(4)]
    return out


def _report(col, fails, extra_case=None):
    for key, what, params, call in fails:
        col.fail(key, what, {"params": [list(p) for p in params], "call": call, **(extra_case or {})})


def run_shard(spec):
    col = runner.Collector(spec)
    checker = sut.new_checker()
    mode = spec["mode"]
    if mode == "exhaustive":
        sigs = list(signatures(spec["bound"]))
        mine = sigs[spec["index"]::spec["of"]]
        full = spec["bound"] <= 3
        batch = []
        ncalls = 0
        for params in mine:
            calls = list(call_shapes(params, max_pos=min(3, len(params) + 1), max_kw=2, full=full))
            for k in range(0, len(calls), 150):
                batch.append((params, calls[k:k + 150]))
                ncalls += len(calls[k:k + 150])
                if ncalls >= 300:
                    _report(col, judge(batch, checker, col))
                    batch, ncalls = [], 0
            if col.out_of_time():
                break
        if batch:
            _report(col, judge(batch, checker, col))
        col.extra["exhaustive"] = not col.budget_hit
        col.extra["exhaustive_bounds"] = [f"all def headers with <= {spec['bound']} parameters x call-shape set (both signature routes)"]
        col.extra["signatures_enumerated"] = len(mine)
        if mine:
            col.sample({"header": header(mine[len(mine) // 2]), "call": "f(" + next(iter(call_shapes(mine[len(mine) // 2])))[0] + ")"})
        return col.result()

    if mode == "star-constants":
        sigs = list(signatures(spec["bound"]))
        mine = sigs[spec["index"]::spec["of"]]
        for k in range(0, len(mine), 6):
            batch = [(p, list(star_const_calls(p))) for p in mine[k:k + 6]]
            _report(col, judge_star_constants(batch, checker, col), {"star_constants": True})
            if col.out_of_time():
                break
        return col.result()

    if mode == "methods":
        sigs = list(signatures(spec["bound"]))
        mine = sigs[spec["index"]::spec["of"]]
        for params in mine:
            calls = list(call_shapes(params, max_pos=min(3, len(params) + 1), max_kw=2, full=True))
            for k in range(0, len(calls), 40):
                _report(col, judge_methods([(params, calls[k:k + 40])], checker, col), {"methods": True})
            if col.out_of_time():
                break
        col.extra["exhaustive_method_routes"] = f"all def headers with <= {spec['bound']} parameters x call-shape set x {len(METHOD_ROUTES)} receiver routes"
        return col.result()

    if mode == "unknown":
        sigs = list(signatures(spec["bound"]))
        mine = sigs[spec["index"]::spec["of"]]
        batch = []
        for params in mine:
            batch.append((params, list(unknown_calls(params))))
            if len(batch) >= 8:
                _report(col, judge_unknown(batch, checker, col), {"unknown": True})
                batch = []
            if col.out_of_time():
                break
        if batch:
            _report(col, judge_unknown(batch, checker, col), {"unknown": True})
        col.sample({"header": header(mine[-1]) if mine else "", "call": "f(1, *xs, **kw)"})
        return col.result()

    # sampled: 4-6 parameters
    seed = runner.mix_seed(spec["seed"], ID, spec["name"])
    big = [p for p in signatures(6) if 4 <= len(p)]

    def make():
        @given(st.lists(st.sampled_from(big), min_size=4, max_size=4), st.data())
        def t(sigs, data):
            items = []
            for params in sigs:
                calls = list(call_shapes(params, max_pos=4, max_kw=3, full=False))
                idx = data.draw(st.lists(st.integers(0, len(calls) - 1), min_size=60, max_size=60))
                items.append((params, [calls[k] for k in idx]))
            fails = judge(items, checker, col)
            col.sample({"header": header(sigs[0]), "call": "f(" + items[0][1][0][0] + ")"})
            for key, what, params, call in fails:
                col.fail(key, what, {"params": [list(p) for p in params], "call": call})
        return t

    runner.drive(col, make, seed, spec["examples"], shrink=False)
    return col.result()


def replay_all(case):
    params = [tuple(p) for p in case["params"]]
    checker = sut.new_checker()
    if case.get("unknown"):
        shape = None
        for c, s in unknown_calls(params):
            if c == case["call"]:
                shape = s
        if shape is None:
            return []
        fails = judge_unknown([(params, [(case["call"], shape)])], checker)
    else:
        feat = "?"
        for c, f in call_shapes(params, max_pos=4, max_kw=3, full=True):
            if c == case["call"]:
                feat = f
                break
        if case.get("star_constants"):
            fails = judge_star_constants([(params, [(case["call"], "star-constant:?")])], checker)
        else:
            fails = (judge_methods if case.get("methods") else judge)([(params, [(case["call"], feat)])], checker)
    return [{"key": k, "what": w, "case": case} for k, w, _, _ in fails]


def replay(case):
    for f in replay_all(case):
        return f
    return None

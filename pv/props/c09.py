"""C09 - name binding: reaching definitions and (possibly) undefined names."""

from __future__ import annotations

import ast
import itertools
import re

from hypothesis import given, strategies as st

from pv import cfg, runner, sut
from pv.cfg import U

ID = "C09"
TECHNIQUE = "bounded exhaustive + Hypothesis-generated control-flow skeletons; oracle = scripted execution under CPython (lower bound) and an independent strict/liberal reaching-definitions analysis (bounds), the model itself validated against execution"
RULE = (
    "function skeletons over v = <distinct int>, site(v, n), call(), break/continue/return/raise and if / if-else / "
    "while cond() / while True / for / loop-else / try-except[-else][-finally] / try-finally / with Suppress() / "
    "with NoSuppress(); exhaustive for [optional assignment] + one compound with blocks of <=2 atoms + final use, "
    "Hypothesis-generated up to width 3 / depth 3. Oracle per use: executed(use) (all scripts of <=7 opaque "
    "choices) is a subset of strict(use), strict(use) subset of reported(use) subset of liberal(use); unbound in strict => "
    "(possibly_)undefined_name reported, unbound not in liberal => not reported; dynamic subset strict subset liberal "
    "is asserted for every skeleton (harness error otherwise). Non-trivial = skeleton with a compound whose use "
    "has more than one reaching state (distinct by source)."
    ' Also: the variable as a module-level name declared `global` (bound at module level or not), with nested readers / setters; a break / continue leaving a with / try part directly inside its loop (exhaustive family); signature tokens JT:/LIN: (jump through / loop inside a with or try part) and UL:/DL: (position relative to a loop with else).'
)
ASSUMPTIONS = [
    "uses that no path of the liberal CFG reaches (dead code) are skipped",
    "possibly_undefined_name is enabled for this check (it is off by default)",
    "nested functions: one reader (closure) and setters (nonlocal / global); `global v` with the variable private to the function; del is outside the property's grammar",
]

SETTINGS = {"possibly_undefined_name": True}


# ----------------------------------------------------------------- enumeration

ATOMS = [("assign", 0), ("use", 0), ("call",), ("return",), ("raise",)]
CLOSURE_ATOMS = [("assign", 0), ("calli",), ("call",), ("return",)]
LOOP_ATOMS = ATOMS + [("break",), ("continue",)]


def blocks(atoms, maxlen):
    for n in range(1, maxlen + 1):
        for b in itertools.product(atoms, repeat=n):
            # statements after an unconditional jump are dead code: skip those shapes
            if any(s[0] in ("return", "raise", "break", "continue") for s in b[:-1]):
                continue
            yield list(b)


def compounds():
    B2 = list(blocks(ATOMS, 2))
    L2 = list(blocks(LOOP_ATOMS, 2))
    B1 = list(blocks(ATOMS, 1))
    for b in B2:
        yield ("if", b, None)
        yield ("with", "S", b)
        yield ("with", "N", b)
        # several context managers in one statement: the suppressing one first, last, in the middle
        yield ("with", "NS", b)
        yield ("with", "SN", b)
        yield ("with", "NSN", b)
    for a, b in itertools.product(B2, B2):
        yield ("if", a, b)
        yield ("try", a, [b], None, None)
        yield ("try", a, [], None, b)
    for b in L2:
        yield ("while", b, None)
        yield ("whiletrue", b)
        yield ("for", b, None)
    for a, b in itertools.product(L2, B2):
        yield ("while", a, b)
        yield ("for", a, b)
    for a, b, c in itertools.product(B1, B1, B1):
        yield ("try", a, [b], c, None)
        yield ("try", a, [b], None, c)


def closure_functions():
    """[optional assignment]; one compound over {v=, inner(), call(), return}; inner() - the nested
    function `inner` reads v when it is called."""
    B = list(blocks(CLOSURE_ATOMS, 2))
    for b in B:
        for comp in (("if", b, None), ("while", b, None), ("for", b, None), ("with", "S", b), ("try", b, [[("pass",)]], None, None)):
            if not any(s[0] in ("assign", "calli") for s in b):
                continue
            for prefix in ([], [("assign", 0)], [("calli",)]):
                yield cfg.renumber(prefix + [comp, ("calli",)])
    for a, b in itertools.product(B, B):
        if any(s[0] == "assign" for s in a + b) and any(s[0] == "calli" for s in a + b):
            yield cfg.renumber([("if", a, b), ("calli",)])


def nested_loop_functions():
    """Loops nested two and three deep: optional assignment; outer loop whose body is
    [optional assignment, middle loop, optional jump block, optional assignment]; the middle
    loop's body is [inner loop or atom, optional jump block]; a use after (and, in half of them,
    at the head of) the outer loop.  Jump blocks are `if c: [v = ..;] break/continue`."""
    jumps = [None,
             ("if", [("assign", 0), ("break",)], None), ("if", [("assign", 0), ("continue",)], None),
             ("if", [("break",)], None), ("if", [("continue",)], None)]
    kinds = ("while", "for")

    def loop(kind, body):
        return (kind, body, None)

    for k1, k2, k3 in itertools.product(kinds, kinds, kinds + (None,)):
        for j1, j2, j3 in itertools.product(jumps, jumps, jumps[:3]):
            if j1 is None and j2 is None:
                continue
            for pre, post, head_use in itertools.product((False, True), (False, True), (False, True)):
                if k3 is None:
                    if j3 is not None:
                        continue
                    inner = [("assign", 0)] if pre else [("call",)]
                else:
                    inner = [loop(k3, [("call",)] + ([j3] if j3 else []))]
                middle = loop(k2, inner + ([j2] if j2 else []))
                body = ([("use", 0)] if head_use else []) + ([("assign", 0)] if pre else []) + [middle] + ([j1] if j1 else []) \
                    + ([("assign", 0)] if post else [])
                yield cfg.renumber([("assign", 0), loop(k1, body), ("use", 0)])


def loop_in_slot_functions():
    """A loop (while / for / while True) whose body is a block of <=2 atoms containing a use or an
    assignment, placed in every block position of every compound statement (if / else, loop body /
    loop else, try body / handler / else / finally, with body), with and without an initial assignment."""
    L2 = [b for b in blocks(LOOP_ATOMS, 2) if any(s[0] in ("assign", "use") for s in b)]
    filler = [("call",)]

    def slots(inner):
        yield ("if", [inner], None)
        yield ("if", filler, [inner])
        for k in ("while", "for"):
            yield (k, [inner], None)
            yield (k, filler, [inner])
            yield (k, [("if", [("break",)], None)], [inner])
        yield ("whiletrue", [inner, ("if", [("break",)], None)])
        yield ("try", [inner], [filler], None, None)
        yield ("try", filler, [[inner]], None, None)
        yield ("try", filler, [filler], [inner], None)
        yield ("try", filler, [], None, [inner])
        yield ("with", "S", [inner])
        yield ("with", "N", [inner])
    for body in L2:
        for kind in ("while", "for", "whiletrue"):
            if kind == "whiletrue":
                if body[-1][0] in ("break", "continue", "return", "raise"):
                    continue
                inner = ("whiletrue", list(body) + [("if", [("break",)], None)])
            else:
                inner = (kind, list(body), None)
            for outer in slots(inner):
                for prefix in ([], [("assign", 0)]):
                    yield cfg.renumber(prefix + [outer, ("use", 0)])


def nonlocal_functions():
    """v = ..; one compound over {v=, setvN() [a nested function assigning v through `nonlocal`], use, call, return}; use."""
    atoms = [("assign", 0), ("assignn", 0), ("use", 0), ("call",), ("return",)]
    B = [b for b in blocks(atoms, 2)]
    for b in B:
        if not any(s[0] == "assignn" for s in b):
            continue
        for comp in (("if", b, None), ("while", b, None), ("for", b, None), ("with", "S", b), ("try", b, [[("pass",)]], None, None),
                     ("try", b, [[("assign", 0)]], None, [("use", 0)])):
            yield cfg.renumber([("assign", 0), comp, ("use", 0)])
    for a, b in itertools.product(B, B):
        if any(s[0] == "assignn" for s in a + b):
            yield cfg.renumber([("assign", 0), ("if", a, b), ("use", 0)])
    yield cfg.renumber([("assign", 0), ("use", 0), ("assignn", 0), ("use", 0)])


def global_functions():
    """The variable is a module-level name declared `global` in the function (bound to 0 at module level, or
    bound nowhere else): [optional assignment]; one compound with blocks of <=2 atoms (single-block compounds)
    or <=1 atom per block (two-block compounds); use.  Plus closure reads and nested setters of the global."""
    B2 = list(blocks(ATOMS, 2))
    L2 = list(blocks(LOOP_ATOMS, 2))
    B1 = list(blocks(ATOMS, 1))
    L1 = list(blocks(LOOP_ATOMS, 1))

    def comps():
        for b in B2:
            yield ("if", b, None)
            yield ("with", "S", b)
        for b in L2:
            yield ("while", b, None)
            yield ("for", b, None)
            yield ("whiletrue", b)
        for a, b in itertools.product(B1, B1):
            yield ("if", a, b)
            yield ("try", a, [b], None, None)
            yield ("try", a, [], None, b)
        for a, b in itertools.product(L2, B1):
            yield ("while", a, b)
            if len(a) == 2:
                yield ("for", a, b)
    for init in (True, False):
        g = ("global", init)
        yield cfg.renumber([g, ("use", 0), ("assign", 0), ("use", 0)])
        for c in comps():
            if not any(s[0] in ("assign", "use") for s in cfg.walk([c])):
                continue
            for prefix in ([], [("assign", 0)], [("use", 0)]):
                yield cfg.renumber([g] + prefix + [c, ("use", 0)])
        # nested functions reading / assigning the global
        atoms = [("assign", 0), ("assignn", 0), ("calli",), ("use", 0), ("return",)]
        for b in blocks(atoms, 2):
            if not any(s[0] in ("assignn", "calli") for s in b):
                continue
            for comp in (("if", b, None), ("while", b, None), ("try", b, [[("pass",)]], None, None)):
                for prefix in ([], [("assign", 0)]):
                    yield cfg.renumber([g] + prefix + [comp, ("use", 0)])


def jump_through_functions():
    """A break / continue that leaves a with / try part on the way to its loop: the loop body is
    [optional v=] + one with / try statement whose body, handler, else or finally block is
    [optional call, optional v=, jump] + [optional v=]; optional assignment before the loop, use after it."""
    for kind in ("while", "for", "whiletrue"):
        for jump in ("break", "continue"):
            if kind == "whiletrue" and jump == "continue":
                continue
            for pre_b in ([], [("assign", 0)], [("call",)], [("call",), ("assign", 0)]):
                B = pre_b + [(jump,)]
                wrappers = [("with", "S", B), ("with", "N", B), ("try", B, [[("pass",)]], None, None),
                            ("try", [("call",)], [B], None, None), ("try", B, [], None, [("pass",)]),
                            ("try", [("call",)], [], None, B), ("try", [("call",)], [[("pass",)]], B, None)]
                for w in wrappers:
                    for pre, post, outer in itertools.product((False, True), repeat=3):
                        body = ([("assign", 0)] if pre else []) + [w] + ([("assign", 0)] if post else [])
                        loop = (kind, body) if kind == "whiletrue" else (kind, body, None)
                        yield cfg.renumber(([("assign", 0)] if outer else []) + [loop, ("use", 0)])


def exhaustive_functions():
    yield from nested_loop_functions()
    yield from jump_through_functions()
    yield from nonlocal_functions()
    yield from global_functions()
    yield from loop_in_slot_functions()
    for c in compounds():
        for prefix in ([], [("assign", 0)]):
            yield cfg.renumber(prefix + [c, ("use", 0)])
    yield from closure_functions()


# ----------------------------------------------------------------- Hypothesis skeletons


def skeleton_strategy(width=3, depth=3):
    atom = st.sampled_from(ATOMS + [("pass",), ("calli",)])
    loop_atom = st.sampled_from(LOOP_ATOMS + [("calli",)])

    def block(d, in_loop):
        return st.lists(stmt(d, in_loop), min_size=1, max_size=width).map(trim_dead)

    def stmt(d, in_loop):
        a = loop_atom if in_loop else atom
        if d == 0:
            return a
        b = st.deferred(lambda: block(d - 1, in_loop))
        lb = st.deferred(lambda: block(d - 1, True))
        opt = lambda s: st.one_of(st.none(), s)
        return st.one_of(
            a, a,
            st.tuples(st.just("if"), b, opt(b)),
            st.tuples(st.just("while"), lb, opt(b)),
            st.tuples(st.just("whiletrue"), lb),
            st.tuples(st.just("for"), lb, opt(b)),
            st.tuples(st.just("try"), b, st.lists(b, min_size=1, max_size=2), opt(b), opt(b)),
            st.tuples(st.just("try"), b, st.just([]), st.none(), b),
            st.tuples(st.just("with"), st.sampled_from(["S", "N", "S", "N", "NS", "SN", "NN", "NSN"]), b),
        )

    def finish(b, g):
        b = list(b) + [("use", 0)]
        if g is not None:
            b = [("global", g)] + b
        return cfg.renumber(b)

    # one skeleton in five keeps its variable at module level (`global`), bound there or not
    return st.builds(finish, block(depth, False), st.sampled_from([None, None, None, None, None, None, None, None, True, False]))


def trim_dead(b):
    out = []
    for s in b:
        out.append(s)
        if s[0] in ("return", "raise", "break", "continue"):
            break
    return out


# ----------------------------------------------------------------- judging


def paths(stmts, prefix=""):
    """site/def -> textual path of enclosing constructs."""
    sites, defs = {}, {}

    def go(b, p):
        for s in b or []:
            t = s[0]
            if t in ("assign", "assignn"):
                defs[s[1]] = (p or "top") + ("~nonlocal" if t == "assignn" else "")
            elif t == "use":
                sites[s[1]] = p or "top"
            elif t in ("if", "while", "for"):
                go(s[1], f"{p}>{t}.body")
                go(s[2], f"{p}>{t}.else")
            elif t == "whiletrue":
                go(s[1], f"{p}>whiletrue.body")
            elif t == "try":
                go(s[1], f"{p}>try.body")
                for h in s[2]:
                    go(h, f"{p}>try.except")
                go(s[3], f"{p}>try.else")
                go(s[4], f"{p}>try.finally")
            elif t == "with":
                go(s[2], f"{p}>with{s[1]}.body")
    go(stmts, prefix)
    if cfg.global_mode(stmts):
        defs[0] = "top"  # the module-level binding
    return sites, defs


def shape(stmts):
    """Construct kinds present (for keys)."""
    kinds = sorted({s[0] + (s[1] if s[0] == "with" else "") for s in cfg.walk(stmts) if s[0] not in cfg.SIMPLE})
    return "+".join(kinds)


class ModelError(Exception):
    pass


def judge(funcs, checker, col=None, script_len=7):
    """funcs: list of stmts.  Returns failures [(key, what, stmts)]."""
    names = [f"f{i}" for i in range(len(funcs))]
    lines = ["from pv_vocab import *"]
    starts = {}
    for name, stmts in zip(names, funcs):
        starts[name] = len(lines) + 1
        lines += cfg.render_function(name, stmts)
    src = "\n".join(lines) + "\n"
    res = sut.check_source(src, checker=checker, collect_values=True, settings=None)
    if res.raised is not None:
        raise res.raised
    from pyanalyze import value as V

    # reported sets per (function, site)
    undefined_at = {}
    for d in res.diags:
        if d.code in ("undefined_name", "possibly_undefined_name"):
            undefined_at[(d.lineno, d.col)] = d.code
        elif d.code == "internal_error":
            raise RuntimeError("internal error in skeleton module: " + d.description[-300:])
    reported = {}
    line_of_site = {}
    func_of_line = {}
    ordered = sorted(starts.items(), key=lambda kv: kv[1])
    for node in ast.walk(res.tree):
        if isinstance(node, ast.Call) and isinstance(node.func, ast.Name) and node.func.id == "site":
            fname = [n for n, s in ordered if s <= node.lineno][-1]
            site = node.args[1].value
            name_node = node.args[0]
            vals = res.values_of(name_node)
            got = set()
            for v in vals:
                for m in V.flatten_values(v, unwrap_annotated=True):
                    if isinstance(m, V.KnownValue) and isinstance(m.val, int):
                        got.add(m.val)
            if (name_node.lineno, name_node.col_offset) in undefined_at:
                got.add(U)
            reported[(fname, site)] = (got, bool(vals))
            line_of_site[(fname, node.lineno)] = site
    ns, vocab = cfg.compile_functions(dict(zip(names, funcs)))
    fails = []
    for name, stmts in zip(names, funcs):
        strict = cfg.analyse(stmts, False)
        liberal, live_defs = cfg.analyse(stmts, True, want_defs=True)
        # dynamic lower bound
        dynamic = {}
        fn = ns[name]
        # line numbers inside the separately compiled module equal those of `src`
        gm = cfg.global_mode(stmts)
        reset = None if gm is None else (ns, cfg.global_name(name), gm)
        for sc in cfg.scripts(script_len):
            obs, unbound_line = cfg.execute(fn, vocab, sc, reset=reset)
            for site, xs in obs.items():
                dynamic.setdefault(site, set()).update(xs)
            if unbound_line is not None:
                site = line_of_site.get((name, unbound_line))
                if site is not None:
                    dynamic.setdefault(site, set()).add(U)
        sites, defs = paths(stmts)
        fsrc = "\n".join(cfg.render_function(name, stmts))
        nontriv = False
        for site in sites:
            s_set, l_set, d_set = strict.get(site, set()), liberal.get(site, set()), dynamic.get(site, set())
            if not d_set <= s_set or not s_set <= l_set:
                raise ModelError(f"model inconsistency: dynamic {d_set} strict {s_set} liberal {l_set} at site {site} in\n{fsrc}")
            if not l_set:
                if col is not None:
                    col.extra["dead_uses_skipped"] = col.extra.get("dead_uses_skipped", 0) + 1
                continue
            got, visited = reported.get((name, site), (set(), False))
            if not visited:
                continue
            if len(l_set) > 1:
                nontriv = True
            missing = s_set - got
            spurious = got - l_set
            for m in sorted(missing, key=str):
                if m == U:
                    key = f"undefined-FN|use@{sites[site]}|{shape(stmts)}"
                    what = f"v can be unbound at site {site} (strict CFG; executed: {U in d_set}) but no (possibly_)undefined_name is reported"
                else:
                    key = f"missing|use@{sites[site]}|def@{defs.get(m, '?')}"
                    what = f"assignment v = {m} reaches site {site} (strict CFG; executed: {m in d_set}) but the inferred value is {sorted(got, key=str)}"
                fails.append((key, what + "\n" + fsrc, stmts))
            for m in sorted(spurious, key=str):
                if m == U:
                    key = f"undefined-FP|use@{sites[site]}|{shape(stmts)}"
                    what = f"v is bound on every path to site {site} (liberal CFG) but {undefined_code(reported, name, site, undefined_at, res)} is reported"
                else:
                    dead = m not in live_defs
                    key = f"{'spurious-dead-def' if dead else 'spurious'}|use@{sites[site]}|def@{defs.get(m, '?')}"
                    what = (f"assignment v = {m} " + ("is unreachable code (liberal CFG)" if dead else f"reaches site {site} on no path (liberal CFG)")
                            + f" but is in the inferred value {sorted(got, key=str)}")
                fails.append((key, what + "\n" + fsrc, stmts))
        if col is not None:
            col.case(nontrivial_id=fsrc if nontriv else None, label=["shape:" + (shape(stmts) or "flat")],
                     sample=fsrc if nontriv else None)
    return fails


def undefined_code(reported, name, site, undefined_at, res):
    return "an undefined-name diagnostic"


def kind_of(key):
    return key.split("|")[0]


def minimise(stmts, kind, checker):
    """Shrink a failing skeleton to a minimal one failing in the same way; returns
    (root-cause key, what, minimal stmts)."""
    def still(v):
        try:
            return any(kind_of(k) == kind for k, _, _ in judge([v], checker))
        except ModelError:
            return False
    small = cfg.reduce(stmts, still)
    fails = [(k, w) for k, w, _ in judge([small], checker) if kind_of(k) == kind]
    if not fails:
        return None
    sig = cfg.signature(small)
    rel = relation_tokens(fails[0][0])
    if rel and "LELSE" in sig.split(","):
        # loop-else findings are keyed more finely: where the use and the definition sit relative to each other
        # and relative to the (first) loop that has an else clause
        sig = ",".join(sorted(set(sig.split(",")) | set(rel) | set(loop_else_tokens(small, fails[0][0]))))
    return f"{kind}|{sig}", f"[minimal: {cfg.encode(small)}] " + fails[0][1], small


def loop_else_tokens(stmts, judge_key):
    """UL:<r> / DL:<r>: where the use (and the definition the failure names) sit relative to the first loop with
    an else clause: body, else, or before / after it in document order."""
    m = re.match(r"^[\w-]+\|use@", judge_key)
    if not m:
        return []
    order = {}   # ("use", site) / ("def", k) -> (preorder index, region stack)
    loop = {}
    counter = itertools.count()

    def go(b, region):
        for st_ in b or []:
            i = next(counter)
            t = st_[0]
            if t in ("assign", "assignn"):
                order[("def", st_[1])] = (i, region)
            elif t == "use":
                order[("use", st_[1])] = (i, region)
            elif t in ("while", "for"):
                first = st_[2] is not None and not loop
                if first:
                    loop["at"] = i
                go(st_[1], "body" if first else region)
                go(st_[2], "else" if first else region)
                if first:
                    loop["end"] = next(counter)
            elif t == "if":
                go(st_[1], region)
                go(st_[2], region)
            elif t == "whiletrue":
                go(st_[1], region)
            elif t == "try":
                go(st_[1], region)
                for h in st_[2]:
                    go(h, region)
                go(st_[3], region)
                go(st_[4], region)
            elif t == "with":
                go(st_[2], region)
    go(stmts, None)
    if not loop:
        return []
    # the failing site and definition are read back from the message key via paths(): take the first use / def
    # whose textual path matches
    sites, defs = paths(stmts)
    mm = re.match(r"^[\w-]+\|use@([^|]*)(?:\|def@([^|]*))?", judge_key)
    up, dp = mm.group(1), mm.group(2)

    def rel(kind, want, table):
        for key, path in sorted(table.items(), key=lambda kv: str(kv[0])):
            if path == want and (kind, key) in order:
                i, region = order[(kind, key)]
                if region in ("body", "else") and loop["at"] < i < loop.get("end", 10 ** 9):
                    return region
                return "before" if i < loop["at"] else "after"
        return None
    toks = []
    r = rel("use", up, sites)
    if r:
        toks.append("UL:" + r)
    if dp is not None and dp != "?":
        r = rel("def", dp, defs)
        if r:
            toks.append("DL:" + r)
    return toks


def relation_tokens(judge_key):
    """Tokens describing where the use (and the definition, if the failure names one) of a minimal
    failing skeleton sit: U:<path below the common prefix>, D:<...>, C:<construct> for every
    construct on the common prefix.  while / for are both written `loop`."""
    m = re.match(r"^[\w-]+\|use@([^|]*)(?:\|def@([^|~]*))?", judge_key)
    if not m:
        return []
    norm = lambda p: [c.replace("while.", "loop.").replace("for.", "loop.") for c in (p or "").split(">") if c and c != "top"]
    up, dp = norm(m.group(1)), (norm(m.group(2)) if m.group(2) is not None and m.group(2) != "?" else None)
    if dp is None:
        return ["U:" + ">".join(up)] if up else ["U:top"]
    i = 0
    while i < len(up) and i < len(dp) and up[i] == dp[i]:
        i += 1
    toks = ["C:" + c for c in up[:i]]
    toks.append("U:" + (">".join(up[i:]) or "same"))
    toks.append("D:" + (">".join(dp[i:]) or "same"))
    return toks


def report(col, fails, checker):
    """De-duplicate by minimal reproduction."""
    done = set()
    for key, what, stmts in fails:
        kind = kind_of(key)
        sig = (kind, cfg.encode(stmts))
        if sig in done:
            continue
        done.add(sig)
        m = minimise(stmts, kind, checker)
        if m is None:
            col.unreproduced += 1
            continue
        mkey, mwhat, small = m
        col.fail(mkey, mwhat, {"stmts": small})


# ----------------------------------------------------------------- shards


def shards(tier, seed):
    n = 16
    out = [{"mode": "exhaustive", "index": i, "of": n} for i in range(n)]
    out += [{"mode": "random", "index": i, "modules": 12 if tier == "quick" else 600,
             "width": 3, "depth": 2 if tier == "quick" else 3} for i in range(n)]
    return out


def run_shard(spec):
    col = runner.Collector(spec)
    checker = sut.new_checker(settings=sut.settings_from(SETTINGS))
    if spec["mode"] == "exhaustive":
        funcs = []
        n = 0
        for i, f in enumerate(exhaustive_functions()):
            if i % spec["of"] != spec["index"]:
                continue
            funcs.append(f)
            if len(funcs) == 100:
                report(col, judge(funcs, checker, col), checker)
                funcs = []
                if col.out_of_time():
                    break
        if funcs:
            report(col, judge(funcs, checker, col), checker)
        col.extra["exhaustive"] = not col.budget_hit
        col.extra["exhaustive_bounds"] = ["[optional assignment] + every compound with blocks of <=2 atoms (<=1 for three-block try forms) + final use",
                                          "closure reads: one compound over {v=, inner(), call(), return}",
                                          "a loop with a body of <=2 atoms in every block position of every compound statement",
                                          "nonlocal: v=; one compound or if/else over {v=, nested setter through nonlocal, use, call, return}; use",
                                          "global: `global v` (module-level binding present / absent); [v= | use]; one compound (blocks <=2 atoms, two-block forms <=1) ; use; nested readers / setters of the global",
                                          "a break / continue leaving a with / try part (body, handler, else, finally) directly inside its loop, with assignments before / inside / after",
                                          "loops nested 2 and 3 deep (while/for at each level) with `if c: [v=;] break/continue` after the inner loop at each level"]
        return col.result()

    seed = runner.mix_seed(spec["seed"], ID, spec["name"])

    def make():
        @given(st.lists(skeleton_strategy(spec["width"], spec["depth"]), min_size=40, max_size=40))
        def t(funcs):
            report(col, judge(funcs, checker, col, script_len=7), checker)
        return t

    runner.drive(col, make, seed, spec["modules"], shrink=False)
    return col.result()


def _tup(x):
    if isinstance(x, list):
        if x and isinstance(x[0], str):
            return tuple(_tup(y) if not isinstance(y, list) or (y and isinstance(y[0], str)) else [_tup(z) for z in y] for y in x)
        return [_tup(y) for y in x]
    return x


def from_json(stmts):
    """JSON turns tuples into lists: rebuild the IR (blocks are lists, statements tuples)."""
    out = []
    for s in stmts:
        s = list(s)
        t = s[0]
        if t in ("if", "while", "for"):
            out.append((t, from_json(s[1]), None if s[2] is None else from_json(s[2])))
        elif t == "whiletrue":
            out.append((t, from_json(s[1])))
        elif t == "try":
            out.append((t, from_json(s[1]), [from_json(h) for h in s[2]],
                        None if s[3] is None else from_json(s[3]), None if s[4] is None else from_json(s[4])))
        elif t == "with":
            out.append((t, s[1], from_json(s[2])))
        else:
            out.append(tuple(s))
    return out


def replay_all(case):
    stmts = from_json(case["stmts"])
    checker = sut.new_checker(settings=sut.settings_from(SETTINGS))
    out = []
    for k, w, _ in judge([stmts], checker):
        m = minimise(stmts, kind_of(k), checker)
        if m is not None:
            out.append({"key": m[0], "what": m[1], "case": {"stmts": m[2]}})
    return out


def replay(case):
    for f in replay_all(case):
        return f
    return None

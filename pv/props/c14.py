"""C14 - Value algebra: unions form a semilattice; equality/hash; substitution."""

from __future__ import annotations

import warnings

from hypothesis import given, strategies as st

from pv import gen_values as G
from pv import member, runner, sut
from pv.universe import NS, UNIVERSE

warnings.filterwarnings("ignore")

ID = "C14"
TECHNIQUE = "property-based testing of algebraic laws over generated Value terms (Hypothesis), membership model as semantic oracle"
RULE = (
    "Hypothesis-generated triples (a, b, c) of Value recipes (literals incl. unhashable, typed, generic, "
    "sequence, dict-incomplete, TypedDict, callable, annotated, subclass, NewType, typevar, raw nested unions; "
    "equal-but-not-identical copies and permuted unions built by construction) and TypeVar maps; laws: "
    "idempotence, commutativity, associativity, flatness, Never identity, result accepts operands, "
    "members(unite(a,b)) == members(a) | members(b) on the object universe, eq => equal hash, substitution "
    "identity / completeness / commutes with unite. Non-trivial = triple with a union operand or an "
    "unhashable literal (distinct by recipe)."
    ' Flatness also covers union members wrapped in Annotated and the MultiValuedValue constructor route.'
)
ASSUMPTIONS = [
    "equality of Values is pyanalyze's own __eq__ (the property is stated up to that equality)",
    "membership side-condition uses pv/member.py and is skipped when it abstains",
]

from pyanalyze import value as V  # noqa: E402
from pyanalyze.checker import Checker  # noqa: E402

_ctx = None


def ctx():
    global _ctx
    if _ctx is None:
        _ctx = Checker()
    return _ctx


def cls_name(v):
    return type(v).__name__


def safe_hash(v):
    try:
        return hash(v)
    except TypeError:
        return None


def no_nested(v):
    """No member of a union is a union, bare or under an Annotated wrapper (the constructor distributes the
    annotation over the members)."""
    if isinstance(v, V.AnnotatedValue):
        v = v.value
    if isinstance(v, V.MultiValuedValue):
        return all(not isinstance(x, V.MultiValuedValue) and not (isinstance(x, V.AnnotatedValue) and isinstance(x.value, V.MultiValuedValue))
                   for x in v.vals)
    return True


def unhashable_lit(r):
    if isinstance(r, (list, tuple)):
        if len(r) == 2 and r[0] == "lit" and isinstance(r[1], str):
            try:
                hash(eval(r[1], NS))
                return False
            except TypeError:
                return True
        return any(unhashable_lit(x) for x in r)
    return False


def check_laws(ra, rb, rc, tvmap_r):
    """Returns a list of (key, what)."""
    out = []
    a, b, c = G.build(ra), G.build(rb), G.build(rc)
    a2 = G.build(ra)  # equal but not identical
    U = V.unite_values

    def bad(law, what, *vals):
        suffix = ""
        if law in ("eq-hash", "merge-equal") and any(unhashable_lit(r) for r in (ra, rb, rc)):
            suffix = "|unhashable-literal"
        out.append((f"{law}|{'+'.join(cls_name(v) for v in vals)}{suffix}", what))

    # equality / hash
    if a == a2:
        ha, hb = safe_hash(a), safe_hash(a2)
        if ha is not None and hb is not None and ha != hb:
            bad("eq-hash", f"two builds of {a} compare equal but hash differently", a)
    else:
        bad("rebuild-eq", f"two builds of {a} from the same recipe compare unequal", a)
    if a == b and safe_hash(a) is not None and safe_hash(b) is not None and hash(a) != hash(b):
        bad("eq-hash", f"{a} == {b} but hashes differ", a, b)

    # idempotence (raw unions may hold duplicate members, so compare after re-uniting the
    # flattened members of both sides: equality "up to" what unite_values itself normalises)
    norm = lambda v: U(*V.flatten_values(v))
    uaa = U(a, a)
    if not _is_unreachable_any(a) and norm(uaa) != norm(a):
        bad("idempotent", f"unite({a}, {a}) = {uaa}", a)
    uaa2 = U(a, a2)
    if not _is_unreachable_any(a) and norm(uaa2) != norm(a):
        bad("merge-equal", f"unite of two equal builds of {a} = {uaa2}", a)

    # commutativity, associativity
    uab, uba = U(a, b), U(b, a)
    if uab != uba:
        bad("commutative", f"unite({a}, {b}) = {uab} but unite({b}, {a}) = {uba}", a, b)
    l, r = U(U(a, b), c), U(a, U(b, c))
    if l != r:
        bad("associative", f"unite(unite(a,b),c) = {l} but unite(a,unite(b,c)) = {r} for a={a}, b={b}, c={c}", a, b, c)
    flat3 = U(a, b, c)
    if flat3 != l:
        bad("nary", f"unite(a,b,c) = {flat3} but unite(unite(a,b),c) = {l} for a={a}, b={b}, c={c}", a, b, c)
    for res in (uab, l, r):
        if not no_nested(res):
            bad("flat", f"nested union in {res!r}", a, b)
    # the constructor route: a union built directly from the operands is flat (it does not de-duplicate)
    raw = V.MultiValuedValue([a, b])
    if not no_nested(raw):
        bad("flat-ctor", f"nested union in MultiValuedValue([{a}, {b}]) = {raw!r}", a, b)
    # Never identity
    un = U(a, V.NO_RETURN_VALUE)
    if not _is_unreachable_any(a) and norm(un) != norm(a):
        bad("never-identity", f"unite({a}, Never) = {un}", a)
    # result accepts operands
    try:
        for op in (a, b):
            ca = uab.can_assign(op, ctx())
            if isinstance(ca, V.CanAssignError):
                bad("accepts-operand", f"unite({a}, {b}) = {uab} does not accept operand {op}", a, b)
    except Exception as e:
        bad("accepts-operand-raises", f"can_assign raised {type(e).__name__}: {e} for unite({a}, {b})", a, b)
    # members
    ta, tb, tu = member.from_value(a), member.from_value(b), member.from_value(uab)
    for ob in UNIVERSE:
        ma, mb, mu = member.mem(ob.obj, ta), member.mem(ob.obj, tb), member.mem(ob.obj, tu)
        if ma is None or mb is None or mu is None:
            continue
        if mu != (ma or mb):
            # KnownValue equality compares the outer type only: Literal[(True, 2)] == Literal[(1, 2)], so one of two such
            # alternatives is dropped by uniting (recorded finding, keyed separately)
            twins = [x for v in (a, b) for x in V.flatten_values(v, unwrap_annotated=True)
                     if isinstance(x, V.KnownValue) and type(x.val) is type(ob.obj) and _safe_eq(x.val, ob.obj) and repr(x.val) != repr(ob.obj)]
            if twins:
                out.append(("members|nested-cross-type-equal-literals", f"{ob.src} in unite({a}, {b}) = {uab} is {mu} but in a: {ma}, in b: {mb}"))
            else:
                bad("members", f"{ob.src} in unite({a}, {b}) = {uab} is {mu} but in a: {ma}, in b: {mb}", a, b)
            break

    # substitution
    tvmap = {NS[k]: G.build(v) for k, v in tvmap_r.items()}
    has_tv = lambda val: any(isinstance(x, V.TypeVarValue) for x in val.walk_values())
    if not has_tv(a) and not _has_callable_known(a):
        sa = a.substitute_typevars(tvmap)
        if sa != a and norm(sa) != norm(a):
            bad("subst-identity", f"substitute_typevars changed typevar-free {a} into {sa}", a)
    if tvmap:
        sa = a.substitute_typevars(tvmap)
        repl_has = {tv for tv in tvmap if any(
            isinstance(x, V.TypeVarValue) and x.typevar is tv for x in tvmap[tv].walk_values())}
        for x in sa.walk_values():
            if isinstance(x, V.TypeVarValue) and x.typevar in tvmap and x.typevar not in repl_has \
                    and not any(isinstance(y, V.TypeVarValue) and y.typevar is x.typevar
                                for rv in tvmap.values() for y in rv.walk_values()):
                bad("subst-complete", f"{x} survives substituting {tvmap_r} into {a}: {sa}", a)
                break
        s_u = U(a, b).substitute_typevars(tvmap)
        u_s = U(a.substitute_typevars(tvmap), b.substitute_typevars(tvmap))
        if s_u != u_s:
            bad("subst-unite", f"subst(unite(a,b)) = {s_u} but unite(subst a, subst b) = {u_s} for a={a}, b={b}, map={tvmap_r}", a, b)
    return out


def _safe_eq(x, y):
    try:
        return bool(x == y)
    except Exception:
        return False


def _is_unreachable_any(v):
    return V._is_unreachable(v)


def _has_callable_known(v):
    # KnownValue.substitute_typevars deliberately wraps callables (KnownValueWithTypeVars)
    return any(isinstance(x, V.KnownValue) and callable(x.val) for x in v.walk_values())


def triple_strategy():
    vals = G.values(any_ok=True, typevars=True)
    eq_pairs = G.permuted_union(G.values(any_ok=False, typevars=False, max_leaves=3))
    # replacement values carry no Annotated wrapper: substituting an annotated value under an
    # identically annotated union yields Annotated[Annotated[X, m], m], equal in meaning but not
    # by ==; the property is stated up to == so that corner is left out
    tvmaps = st.dictionaries(st.sampled_from(["T", "U", "TB", "TC"]),
                             G.values(typevars=False, max_leaves=3).filter(lambda r: not G.contains_tag(r, "ann")),
                             max_size=2)
    plain = st.tuples(vals, vals, vals, tvmaps)
    with_eq = st.tuples(eq_pairs, vals, tvmaps).map(lambda t: (t[0][0], t[0][1], t[1], t[2]))
    # the same value with union members / TypedDict items written in reverse order, at any depth
    td2 = st.lists(st.tuples(st.sampled_from(["a", "b", "c"]), G.values(any_ok=False, typevars=False, max_leaves=2), st.booleans()),
                   min_size=2, max_size=3, unique_by=lambda t: t[0]).map(lambda items: ("td", [[k, t, r] for k, t, r in items]))
    wrap = st.one_of(td2, td2.map(lambda x: ("gen", "list", [x])), td2.map(lambda x: ("union", [x, ("cls", "int")])),
                     G.values(any_ok=False, typevars=False, max_leaves=4))
    reord = st.tuples(G.reordered_pairs(wrap), vals, tvmaps).map(lambda t: (t[0][0], t[0][1], t[1], t[2]))
    return st.one_of(plain, plain, with_eq, reord)


def shards(tier, seed):
    n = 16
    per = 4000 if tier == "quick" else 100000
    return [{"index": i, "examples": per} for i in range(n)]


def run_shard(spec):
    col = runner.Collector(spec)
    seed = runner.mix_seed(spec["seed"], ID, spec["name"])

    def make():
        @given(triple_strategy())
        def t(tr):
            ra, rb, rc, tvm = tr
            try:
                fails = check_laws(ra, rb, rc, tvm)
            except Exception as e:
                import traceback

                tb = traceback.extract_tb(e.__traceback__)
                inner = [f for f in tb if "/pyanalyze/" in f.filename]
                where = f"{inner[-1].filename.split('/')[-1]}:{inner[-1].name}" if inner else "harness"
                if not inner:
                    raise
                fails = [(f"raises|{type(e).__name__}|{where}", f"{type(e).__name__}: {e} on a={G.describe(ra)} b={G.describe(rb)}")]
            nontriv = any(G.contains_tag(r, "union") or G.contains_tag(r, "unite") for r in (ra, rb, rc)) or any(
                unhashable_lit(r) for r in (ra, rb, rc))
            labels = [f"a:{ra[0]}"]
            if ra == rb or (ra[0] == "union" and rb[0] == "union" and sorted(map(repr, ra[1])) == sorted(map(repr, rb[1]))):
                labels.append("equal-pair-by-construction")
            if tvm:
                labels.append("tvmap")
            col.case(nontrivial_id=(ra, rb, rc, tvm) if nontriv else None, label=labels,
                     sample={"a": G.describe(ra)[:200], "b": G.describe(rb)[:200], "c": G.describe(rc)[:200], "tvmap": {k: G.describe(v)[:80] for k, v in tvm.items()}})
            for key, what in fails:
                col.fail(key, what[:600], {"a": ra, "b": rb, "c": rc, "tvmap": tvm}, raise_new=True)
        return t

    runner.drive(col, make, seed, spec["examples"], replay=replay)
    return col.result()


def _tuplify(r):
    if isinstance(r, list):
        return tuple(_tuplify(x) for x in r)
    return r


def replay_all(case):
    fails = check_laws(case["a"], case["b"], case["c"], case.get("tvmap", {}))
    return [{"key": key, "what": what[:600], "case": case} for key, what in fails]


def replay(case):
    for f in replay_all(case):
        return f
    return None

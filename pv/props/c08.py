"""C08 - overload resolution follows first-match and distributes over unions."""

from __future__ import annotations

import ast
import itertools
import re
import warnings

from hypothesis import given, strategies as st

from pv import member, runner, sut, universe
from pv.props import c05

warnings.filterwarnings("ignore")

ID = "C08"
TECHNIQUE = "property-based testing against a reference resolver written from the documented overload algorithm (first match; union decomposition; Any with several matches), bounded exhaustive for unary/binary sets plus Hypothesis sampling"
RULE = (
    "overload sets of 2-4 @overload signatures (arity 1-2, second parameter positional / defaulted / keyword-only) "
    "over {int, bool, str, bytes, float, None, A, B, Literal[1], Literal['a'], list[int], object} returning "
    "distinct marker classes R0..R3; argument types supplied as parameters of the calling function (plain types, "
    "unions, Any). Oracle: reference resolver using witness-based inclusion and real binding: (a) no Any/union: "
    "inferred type is R_first and the call is diagnosed iff no overload accepts; (b) exactly one union argument: "
    "accepted iff every member is accepted by some overload, and the inferred type contains each member's own "
    "result; (c) an Any argument with >=2 matching overloads of different result does not yield a single R_i. "
    "Non-trivial = call where >=2 overloads bind and the first does not accept (distinct by set+call)."
    " Overload sets also carry overlapping return annotations (NoReturn, unions containing another overload's return, equal returns): exhaustive for pairs of unary overloads over 8 types x 7 return-annotation pairs; the Any rule is: the result is not one matching overload's return type unless all matching overloads return the same type."
)
ASSUMPTIONS = [
    "'accepts' in the reference is inclusion on witnesses (pv/member.py), arity is decided by really binding a def with the same header",
]

VOCAB = ["int", "bool", "str", "bytes", "float", "None", "A", "B", "Literal[1]", 'Literal["a"]', "list[int]", "object"]
ARG_TYPES = VOCAB + ["int | str", "bool | None", "A | int", "str | bytes | None", "Any", "B | str", "float | str"]
RS = ["R0", "R1", "R2", "R3"]


def ident(t):
    return re.sub(r"\W+", "_", t).strip("_")


def ty(src):
    return member.from_rt(universe.eval_type(src))


_incl = {}


def included(x, y):
    k = (x, y)
    if k not in _incl:
        tx, ty_ = ty(x), ty(y)
        r = True
        for o in member.inhabitants(tx, 16):
            if member.mem(o, ty_) is False:
                r = False
                break
        _incl[k] = r
    return _incl[k]


def members_of(t):
    return [m.strip() for m in t.split(" | ")]


# an overload: [(name, kind, type, has_default)]


def ov_header(ov, name, ret):
    parts = []
    star = False
    for nm, kind, t, d in ov:
        if kind == "ko" and not star:
            parts.append("*")
            star = True
        parts.append(f"{nm}: {t}" + (" = ..." if d else ""))
    return f"def {name}({', '.join(parts)}) -> {ret}: ..."


def ov_binds(ov, npos, kws):
    params = [(("ko" if kind == "ko" else "pk"), nm, d) for nm, kind, t, d in ov]
    fn = c05.make_fn(params)
    call = ", ".join(["0"] * npos + [f"{k}=0" for k in kws])
    return c05.binds(fn, call)


def receiving(ov, npos, kws):
    """param type for each argument, in call order."""
    pos_params = [p for p in ov if p[1] == "pk"]
    out = [pos_params[i][2] for i in range(npos)]
    byname = {p[0]: p[2] for p in ov}
    out += [byname[k] for k in kws]
    return out


def accepts(ov, npos, kws, argtypes):
    if not ov_binds(ov, npos, kws):
        return False
    return all(included(a, p) for a, p in zip(argtypes, receiving(ov, npos, kws)))


def ret_names(src):
    """Marker classes named by a return annotation (`NoReturn` names none)."""
    return frozenset(m for m in members_of(src) if m in RS)


def default_rets(n):
    return RS[:n]


def reference(ovs, npos, kws, argtypes, rets=None):
    """Returns dict(kind, accepted, results) per the documented algorithm; results are return annotations."""
    RS = rets or default_rets(len(ovs))
    any_idx = [i for i, a in enumerate(argtypes) if a == "Any"]
    union_idx = [i for i, a in enumerate(argtypes) if a != "Any" and len(members_of(a)) > 1]
    if not any_idx and not union_idx:
        for k, ov in enumerate(ovs):
            if accepts(ov, npos, kws, argtypes):
                return {"case": "a", "accepted": True, "results": [RS[k]]}
        return {"case": "a", "accepted": False, "results": []}
    if not any_idx and len(union_idx) == 1:
        i = union_idx[0]
        results = []
        for m in members_of(argtypes[i]):
            at = list(argtypes)
            at[i] = m
            r = reference(ovs, npos, kws, at, rets)
            if not r["accepted"]:
                return {"case": "b", "accepted": False, "results": []}
            results += r["results"]
        return {"case": "b", "accepted": True, "results": sorted(set(results))}
    # (results of case b are annotations; the judge compares the marker classes they name)
    if len(any_idx) >= 1 and not union_idx:
        # overloads that match when Any arguments are ignored
        matching = []
        for k, ov in enumerate(ovs):
            if not ov_binds(ov, npos, kws):
                continue
            ok = all(a == "Any" or included(a, p) for a, p in zip(argtypes, receiving(ov, npos, kws)))
            if ok:
                matching.append(k)
        return {"case": "c", "accepted": bool(matching), "results": [RS[k] for k in matching]}
    return {"case": "skip"}


def read_inferred(vals):
    """-> ("any",) | ("classes", {names}) | None"""
    from pyanalyze import value as V

    if not vals:
        return None
    u = sut.union_of(vals)
    names = set()
    has_any = False
    for m in V.flatten_values(u, unwrap_annotated=True):
        if isinstance(m, V.AnyValue):
            has_any = True
        elif isinstance(m, V.TypedValue) and getattr(m.typ, "__name__", None) in RS:
            names.add(m.typ.__name__)
        else:
            return ("other", str(u))
    if has_any:
        return ("any", names)
    return ("classes", names)


HEADER = "from typing import *\nfrom typing_extensions import *\nfrom pv_vocab import *\n"


def judge(items, checker, col=None):
    """items: list of (overload set, [(npos, kws, argtypes)])."""
    lines = HEADER.rstrip("\n").split("\n")
    items = [it if len(it) == 3 else (it[0], it[1], None) for it in items]
    for i, (ovs, calls, rets) in enumerate(items):
        for k, ov in enumerate(ovs):
            lines.append("@overload")
            lines.append(ov_header(ov, f"f{i}", (rets or RS)[k]))
        lines.append(f"def f{i}(*args: Any, **kwargs: Any) -> Any: ...")
    params = ", ".join(f"p_{ident(t)}: {t}" for t in ARG_TYPES)
    lines.append(f"def caller({params}) -> None:")
    lmap = {}
    for i, (ovs, calls, rets) in enumerate(items):
        for j, (npos, kws, argtypes) in enumerate(calls):
            args = [f"p_{ident(t)}" for t in argtypes[:npos]] + [f"{k}=p_{ident(t)}" for k, t in zip(kws, argtypes[npos:])]
            lines.append(f"    r{i}_{j} = f{i}({', '.join(args)})")
            lmap[len(lines)] = (i, j)
    src = "\n".join(lines) + "\n"
    res = sut.check_source(src, checker=checker, collect_values=True)
    if res.raised is not None:
        raise res.raised
    diag = {}
    for d in res.diags:
        if d.lineno in lmap and d.code in ("incompatible_call", "incompatible_argument"):
            diag[d.lineno] = d.description
        elif d.code == "internal_error":
            raise RuntimeError("internal error: " + d.description[-300:])
    inferred = {}
    for n in ast.walk(res.tree):
        if isinstance(n, ast.Assign) and n.lineno in lmap:
            inferred[n.lineno] = res.values_of(n.value)
    fails = []
    for line, (i, j) in lmap.items():
        ovs, calls, rets = items[i]
        npos, kws, argtypes = calls[j]
        ref = reference(ovs, npos, kws, argtypes, rets)
        if ref["case"] == "skip":
            continue
        diagnosed = line in diag
        got = read_inferred(inferred.get(line))
        desc = "; ".join(ov_header(ov, "f", (rets or RS)[k]) for k, ov in enumerate(ovs)) + f" called with ({', '.join(argtypes[:npos] + [f'{k}={t}' for k, t in zip(kws, argtypes[npos:])])})"
        binders = [k for k, ov in enumerate(ovs) if ov_binds(ov, npos, kws)]
        first_accepts = bool(binders) and accepts(ovs[binders[0]], npos, kws, argtypes) if ref["case"] == "a" else False
        nontriv = len(binders) >= 2 and not first_accepts
        if col is not None:
            col.case(nontrivial_id=desc if nontriv else None,
                     label=[f"case:{ref['case']}", "accepted" if ref["accepted"] else "rejected"], sample=desc)
        case = {"ovs": ovs, "npos": npos, "kws": kws, "argtypes": argtypes}
        if rets:
            case["rets"] = list(rets)
        if ref["accepted"] == diagnosed:
            kind = "FP" if diagnosed else "FN"
            fails.append((f"{kind}|case-{ref['case']}|{'+'.join(sorted(set(argtypes)))[:40]}",
                          f"{desc}: reference says {'accepted ' + str(ref['results']) if ref['accepted'] else 'no overload accepts'}, "
                          f"pyanalyze {'reports ' + diag[line] if diagnosed else 'reports nothing'}", case))
            continue
        if not ref["accepted"] or got is None:
            continue
        if ref["case"] == "a":
            if got != ("classes", set(ret_names(ref["results"][0]))):
                fails.append((f"wrong-overload|expected-{ref['results'][0]}|got-{fmt(got)}",
                              f"{desc}: first matching overload returns {ref['results'][0]} but the inferred type is {fmt(got)}", case))
        elif ref["case"] == "b":
            if got[0] == "classes" and not set().union(*[ret_names(r) for r in ref["results"]]) <= got[1]:
                fails.append((f"union-missing-result|{fmt(got)}",
                              f"{desc}: members resolve to {ref['results']} but the inferred type is {fmt(got)}", case))
        elif ref["case"] == "c":
            distinct = {ret_names(r) for r in ref["results"]}
            if len(distinct) >= 2 and got[0] == "classes" and any(got[1] == set(d) for d in distinct):
                fails.append((f"any-selects-one|{fmt(got)}",
                              f"{desc}: overloads {ref['results']} all match the Any argument but the inferred type is the single {fmt(got)}", case))
    return fails


def fmt(got):
    if got[0] == "any":
        return "Any" + ("|" + "|".join(sorted(got[1])) if got[1] else "")
    if got[0] == "classes":
        return "|".join(sorted(got[1])) or "Never"
    return got[1]


# ----------------------------------------------------------------- generators


@st.composite
def overload_strategy(draw):
    arity = draw(st.integers(1, 2))
    ov = [("x", "pk", draw(st.sampled_from(VOCAB)), False)]
    if arity == 2:
        kind = draw(st.sampled_from(["pk", "pk", "ko"]))
        ov.append(("y", kind, draw(st.sampled_from(VOCAB)), draw(st.integers(0, 3)) == 0))
    return ov


@st.composite
def item_strategy(draw):
    ovs = draw(st.lists(overload_strategy(), min_size=2, max_size=4))
    calls = []
    for _ in range(6):
        shape = draw(st.sampled_from([(1, ()), (2, ()), (1, ("y",)), (0, ("x",)), (0, ("x", "y"))]))
        npos, kws = shape
        argtypes = [draw(st.sampled_from(ARG_TYPES)) for _ in range(npos + len(kws))]
        calls.append((npos, list(kws), argtypes))
    if draw(st.integers(0, 2)) == 0:
        # return annotations that overlap: NoReturn, a union with another overload's marker, another overload's marker
        rets = []
        for k in range(len(ovs)):
            j = draw(st.integers(0, len(ovs) - 1))
            rets.append(draw(st.sampled_from([RS[k], RS[k], "NoReturn", f"{RS[k]} | {RS[j]}" if j != k else RS[k], RS[j]])))
        return ovs, calls, rets
    return ovs, calls


RET_PAIRS = [("R0", "NoReturn"), ("NoReturn", "R1"), ("R0 | R1", "R1"), ("R0", "R0 | R1"), ("R0", "R0"), ("R0 | R1", "R1 | R0"),
             ("NoReturn", "NoReturn")]


def exhaustive_ret_items(index, of):
    """All pairs of unary overloads over 8 types x overlapping return annotations (NoReturn, a union containing
    the other's return, equal returns) x every argument type."""
    small = ["int", "bool", "str", "float", "None", "object", "A", "B"]
    k = 0
    for t1, t2 in itertools.product(small, repeat=2):
        for rets in RET_PAIRS:
            if k % of == index:
                yield [[("x", "pk", t1, False)], [("x", "pk", t2, False)]], [(1, [], [a]) for a in ARG_TYPES], list(rets)
            k += 1


def exhaustive_items(index, of):
    """All sets of 2 unary overloads x every argument type, and 3 unary overloads over a reduced vocabulary."""
    k = 0
    small = ["int", "bool", "str", "float", "None", "object", "A", "B"]
    for t1, t2 in itertools.product(VOCAB, repeat=2):
        if k % of == index:
            ovs = [[("x", "pk", t1, False)], [("x", "pk", t2, False)]]
            yield ovs, [(1, [], [a]) for a in ARG_TYPES]
        k += 1
    for t1, t2, t3 in itertools.product(small, repeat=3):
        if k % of == index:
            ovs = [[("x", "pk", t1, False)], [("x", "pk", t2, False)], [("x", "pk", t3, False)]]
            yield ovs, [(1, [], [a]) for a in ARG_TYPES]
        k += 1


def exhaustive_binary_items(index, of):
    """All pairs of two-parameter overloads (x: int|str|object; y: int|str, positional-or-keyword or
    keyword-only, with or without a default) x call shapes f(a, b) / f(a, y=b) / f(a) x argument types
    from {int, str, Any, int | str}."""
    second = [("y", kind, t, d) for kind in ("pk", "ko") for t in ("int", "str") for d in (False, True)]
    ovs_all = [[("x", "pk", tx, False), y] for tx in ("int", "str", "object") for y in second]
    args = ["int", "str", "Any", "int | str"]
    calls = [(2, [], [a, b]) for a in args for b in args] + [(1, ["y"], [a, b]) for a in args for b in args] + [(1, [], [a]) for a in args]
    k = 0
    for o1, o2 in itertools.product(ovs_all, repeat=2):
        if k % of == index:
            yield [o1, o2], calls
        k += 1


def exhaustive_permuted_items(index, of):
    """Pairs of two-parameter overloads whose parameter names come in opposite orders, (x: T1, y: T2) and
    (y: T3, x: T4), with equal and with different return annotations; positional, keyword and mixed calls."""
    types = ["int", "str", "bytes"]
    args = ["int", "str", "bytes", "Any"]
    calls = [(2, [], [a, b]) for a in args for b in args] + [(0, ["x", "y"], [a, b]) for a in args[:3] for b in args[:3]] \
        + [(1, ["y"], [a, b]) for a in args[:3] for b in args[:3]]
    k = 0
    for t1, t2, t3, t4 in itertools.product(types, repeat=4):
        for rets in (["R0", "R0"], ["R0", "R1"]):
            if k % of == index:
                o1 = [("x", "pk", t1, False), ("y", "pk", t2, False)]
                o2 = [("y", "pk", t3, False), ("x", "pk", t4, False)]
                yield [o1, o2], calls, rets
            k += 1


def shards(tier, seed):
    n = 16
    out = [{"mode": "exhaustive", "index": i, "of": n} for i in range(n)]
    out += [{"mode": "exhaustive-binary", "index": i, "of": 8} for i in range(8)]
    out += [{"mode": "exhaustive-rets", "index": i, "of": 4} for i in range(4)]
    out += [{"mode": "exhaustive-permuted", "index": i, "of": 4} for i in range(4)]
    out += [{"mode": "random", "index": i, "modules": 6 if tier == "quick" else 300} for i in range(n)]
    return out


def run_shard(spec):
    col = runner.Collector(spec)
    checker = sut.new_checker()
    if spec["mode"] in ("exhaustive", "exhaustive-binary", "exhaustive-rets", "exhaustive-permuted"):
        batch = []
        gen = {"exhaustive": exhaustive_items, "exhaustive-binary": exhaustive_binary_items, "exhaustive-rets": exhaustive_ret_items,
               "exhaustive-permuted": exhaustive_permuted_items}[spec["mode"]]
        for item in gen(spec["index"], spec["of"]):
            batch.append(item)
            if len(batch) == 12:
                for key, what, case in judge(batch, checker, col):
                    col.fail(key, what, case)
                batch = []
                if col.out_of_time():
                    break
        if batch:
            for key, what, case in judge(batch, checker, col):
                col.fail(key, what, case)
        col.extra["exhaustive"] = not col.budget_hit
        col.extra["exhaustive_bounds"] = ["all pairs of unary overloads over the 12-type vocabulary and all triples over 8 types, x 19 argument types",
                                          "all pairs of two-parameter overloads (second parameter pk/ko, with/without default) x 3 call shapes x {int, str, Any, int | str}",
                                          "all pairs (x: T1, y: T2) / (y: T3, x: T4) over {int, str, bytes} with equal and different returns x positional / keyword / mixed calls incl. Any",
                                          "all pairs of unary overloads over 8 types x 7 overlapping return-annotation pairs (NoReturn, containing unions, equal) x 19 argument types"]
        return col.result()
    seed = runner.mix_seed(spec["seed"], ID, spec["name"])

    def make():
        @given(st.lists(item_strategy(), min_size=15, max_size=15))
        def t(items):
            for key, what, case in judge(items, checker, col):
                if col.is_known(key) or key in col.seen_keys:
                    col.fail(key, what, case)
                    continue
                again = replay(case)
                if again is not None:
                    col.fail(again["key"], again["what"], again["case"])
                else:
                    col.unreproduced += 1
        return t

    runner.drive(col, make, seed, spec["modules"], shrink=False)
    return col.result()


def replay_all(case):
    ovs = [[tuple(p) for p in ov] for ov in case["ovs"]]
    fails = judge([(ovs, [(case["npos"], list(case["kws"]), list(case["argtypes"]))], case.get("rets"))], sut.new_checker())
    return [{"key": k, "what": w, "case": case} for k, w, _ in fails]


def replay(case):
    for f in replay_all(case):
        return f
    return None

"""C02 - narrowing never loses the actual value and never widens."""

from __future__ import annotations

import ast
import re
import warnings

from hypothesis import given, strategies as st

from pv import gen_prog, member, runner, sut, universe
from pv.universe import NS, UNIVERSE

warnings.filterwarnings("ignore")

ID = "C02"
TECHNIQUE = "property-based testing: generated (declared type, condition) pairs as two-branch functions, executed on the type's inhabitants under CPython; membership model as oracle for no-loss / no-widening; API-level constrain_value on is_instance / is_value / is_truthy constraint algebra"
RULE = (
    "functions `def f(x: T): if <cond>: site(x,0) else: site(x,1)` (also assert / early-return / match forms), "
    "100 per module; T from the typing grammar (depth <= 2), cond from the narrowing catalogue (isinstance with "
    "class/tuple/union, is/is not None/enum/bool, ==, !=, in, not in, truthiness, not, len comparisons, "
    "TypeIs/TypeGuard helpers, and/or/not combinations, match class/value/sequence/or patterns). Executed on the "
    "inhabitants of T; oracle: the object reaching a branch is a member of the type inferred for x there "
    "(no loss; an inferred Never means no object may reach it), and every universe object in the narrowed type is "
    "in T or in the tested type (no widening). For ==/!=/in, objects equal to a tested literal of another type "
    "(True == 1) are excluded as the property says. API level: constrain_value with is_instance / is_value / "
    "is_truthy constraints closed under and/or/invert on generated Values. Non-trivial = the condition splits the "
    "inhabitants (both branches reached) or a branch is inferred Never (distinct by (T, cond))."
    ' The typing grammar includes the Unpack spelling of variadic tuples (tuple[X, Unpack[tuple[Y, ...]]] and suffix / three-part forms) and subclasses of the promoted numeric types.'
)
ASSUMPTIONS = [
    "membership model pv/member.py; Unknown verdicts are skipped",
    "tested type for the widening check is read off the condition text (classes, literals, TypeIs targets); conditions whose tested type is not recognised skip the widening half",
]

TESTED_BY_HELPER = {"is_int": "int", "is_str": "str", "is_a": "A", "is_str_list": "list[str]"}


def tested_types(cond):
    """Ty terms mentioned by the condition, or None if something is not recognised."""
    out = []
    try:
        tree = ast.parse(cond, mode="eval")
    except SyntaxError:
        return None
    for n in ast.walk(tree):
        if isinstance(n, ast.Call) and isinstance(n.func, ast.Name):
            if n.func.id == "isinstance" and len(n.args) == 2:
                try:
                    c = eval(ast.unparse(n.args[1]), NS)
                except Exception:
                    return None
                cs = c if isinstance(c, tuple) else [c]
                for x in cs:
                    out.append(member.from_rt(x))
            elif n.func.id in TESTED_BY_HELPER:
                out.append(member.from_rt(universe.eval_type(TESTED_BY_HELPER[n.func.id])))
            elif n.func.id == "len":
                pass
            else:
                return None
        elif isinstance(n, ast.Constant):
            out.append(("lit", n.value))
        elif isinstance(n, ast.Attribute) and isinstance(n.value, ast.Name) and n.value.id in ("E", "IE"):
            out.append(("lit", eval(ast.unparse(n), NS)))
    return out


def literals_of(cond):
    out = []
    try:
        tree = ast.parse(cond, mode="eval")
    except SyntaxError:
        return out
    for n in ast.walk(tree):
        if isinstance(n, ast.Compare) and any(isinstance(op, (ast.Eq, ast.NotEq, ast.In, ast.NotIn)) for op in n.ops):
            for c in ast.walk(n):
                if isinstance(c, ast.Constant):
                    out.append(c.value)
                elif isinstance(c, ast.Attribute) and isinstance(c.value, ast.Name) and c.value.id in ("E", "IE"):
                    out.append(eval(ast.unparse(c), NS))
    return out


def cross_type(o, lits):
    for l in lits:
        try:
            if type(o) is not type(l) and o == l:
                return True
        except Exception:
            pass
    return False


def boolless(tsrc):
    """Does the declared type have a member class defining neither __bool__ nor __len__
    (pyanalyze's criterion for 'always true'), e.g. Iterable[X] or a plain class?"""
    import typing_extensions as te

    def classes(t):
        o = te.get_origin(t)
        if o is typing_union() or str(o) in ("typing.Union", "<class 'types.UnionType'>"):
            for a in te.get_args(t):
                yield from classes(a)
        elif o is not None and isinstance(o, type):
            yield o
        elif isinstance(t, type):
            yield t
    try:
        t = universe.eval_type(tsrc)
    except Exception:
        return False
    return any(not hasattr(c, "__bool__") and not hasattr(c, "__len__") and c not in (type(None), object) for c in classes(t))


def typing_union():
    import typing

    return typing.Union


def family(o, tsrc, cond, always_true_reported=False):
    """Known root-cause families (None = unclassified)."""
    import enum

    numeric = isinstance(o, (bool, int)) or isinstance(o, enum.IntEnum)
    if numeric and re.search(r"float|complex", tsrc + " " + cond):
        return "numeric-promotion"
    try:
        falsy = not o
    except Exception:
        falsy = False
    if falsy and boolless(tsrc):
        return "truthiness-always-true-verdict"
    if always_true_reported and falsy:
        # pyanalyze itself announced the verdict (type_always_true) and a falsy object of the type exists
        return "truthiness-always-true-verdict"
    return None


def skeleton(cond):
    s = re.sub(r"\bx\b", "_", cond)
    s = re.sub(r"\"[^\"]*\"|'[^']*'", "S", s)
    s = re.sub(r"\b\d+\b", "N", s)
    return s[:70]


FORMS = ["ifelse", "ifelse", "ifelse", "assert", "early-return", "match"]
def _sequence_patterns():
    """Every sequence pattern with 0-3 fixed positions around an optional star (brackets and
    parentheses), plus capturing and typed sub-patterns."""
    out = []
    for before in range(0, 3):
        for after in range(0, 3):
            if before + after <= 3:
                out.append("[" + ", ".join(["_"] * before + ["*_"] + ["_"] * after) + "]")
        if 0 < before <= 3:
            out.append("[" + ", ".join(["_"] * before) + "]")
    out += ["[]", "(_, _)", "(_, *_)", "(*_, _)", "[*rest]", "[first, *rest]", "[*init, last]", "[a, b, *rest]",
            "[int(), *_]", "[*_, str()]", "[int(), str()]", "[int(), str(), *_]", "[1, *_]", "[*_, 1]"]
    return sorted(set(out))


PATTERNS = ["int()", "str()", "None", "1", '"a"', "A()", "B()", "{}", "int() | str()", "E.a",
            "bool()", "list()", "tuple()", "float()", "True", "0 | 1", "E.a | E.b", "dict()"] + _sequence_patterns()


def render(i, tsrc, form, cond):
    name = f"f{i}"
    head = f"def {name}(x: {tsrc}) -> None:"
    if form == "ifelse":
        return [head, f"    if {cond}:", "        site(x, 0)", "    else:", "        site(x, 1)"]
    if form == "assert":
        return [head, f"    assert {cond}", "    site(x, 0)"]
    if form == "early-return":
        return [head, f"    if {cond}:", "        return", "    site(x, 1)"]
    return [head, "    match x:", f"        case {cond}:", "            site(x, 0)", "        case _:", "            site(x, 1)"]


def pattern_tested(pat):
    out = []
    for p in pat.split(" | "):
        p = p.strip()
        m = re.match(r"^(int|str|A|B|bool|list|tuple|float|dict)\(\)$", p)
        if m:
            out.append(member.from_rt(eval(m.group(1), NS)))
        elif p in ("None", "1", '"a"', "True", "0", "E.a", "E.b"):
            out.append(("lit", eval(p, NS)))
        else:
            return None
    return out


def judge(cases, checker, col=None):
    """cases: list of (tsrc, form, cond)."""
    import pv_vocab

    lines = gen_prog.HEADER.rstrip("\n").split("\n")
    for i, (tsrc, form, cond) in enumerate(cases):
        lines += render(i, tsrc, form, cond)
    src = "\n".join(lines) + "\n"
    res = sut.check_source(src, checker=checker, collect_values=True)
    if res.raised is not None:
        raise res.raised
    fdefs = [n for n in res.tree.body if isinstance(n, ast.FunctionDef)]
    noisy = {}
    for d in res.diags:
        if d.code in ("unused_variable", "unused_assignment"):
            continue
        for fd in fdefs:
            if fd.lineno <= (d.lineno or 0) <= fd.end_lineno:
                noisy.setdefault(fd.name, []).append(d.code)
    inferred = {}
    for fd in fdefs:
        for n in ast.walk(fd):
            if isinstance(n, ast.Call) and isinstance(n.func, ast.Name) and n.func.id == "site":
                inferred[(fd.name, n.args[1].value)] = res.values_of(n.args[0])
    ns = {}
    exec(compile(src, "<c02>", "exec"), ns)
    fails = []
    for i, (tsrc, form, cond) in enumerate(cases):
        name = f"f{i}"
        codes = set(noisy.get(name, []))
        # diagnostics that are themselves verdicts about the condition are kept (they are what the
        # property's last sentence is about); anything else means the function makes no promise
        verdict_codes = {"type_always_true", "value_always_true", "impossible_pattern", "unsafe_comparison", "type_does_not_support_bool"}
        if codes - verdict_codes:
            if col is not None:
                col.discarded += 1
            continue
        t = universe.eval_type(tsrc)
        T = member.from_rt(t)
        objs = member.inhabitants(T, 14)
        if "Tr" in re.findall(r"\w+", tsrc):
            objs = objs + [NS["Tr"](), NS["TrSub"]()]
        lits = literals_of(cond) if form != "match" else [eval(p, NS) for p in cond.split(" | ") if p in ("1", '"a"', "True", "0", "None")]
        reached = {0: [], 1: []}
        for o in objs:
            if cross_type(o, lits):
                continue
            pv_vocab._trace[:] = []
            pv_vocab._cut[0] = False
            pv_vocab._script[:] = []
            try:
                ns[name](o)
            except Exception:
                pass
            for site, x in pv_vocab._trace:
                reached[site].append(x)
        nontriv = bool(reached[0]) and bool(reached[1])
        never_branch = False
        for site in (0, 1):
            vals = inferred.get((name, site))
            if vals is None:
                continue
            u = sut.union_of(vals)
            ty = member.from_value(u)
            if ty == member.NEVER:
                never_branch = True
            branch = "positive" if site == 0 else "negative"
            # no loss
            for o in reached[site]:
                m = member.mem(o, ty)
                if m is None:
                    if col is not None:
                        col.skipped += 1
                    continue
                if m is False:
                    fam = family(o, tsrc, cond, "type_always_true" in codes)
                    fails.append(((f"{fam}|loss" if fam else
                                   f"loss|{form}|{branch}|{skeleton(cond)}|{'Never' if ty == member.NEVER else type(u).__name__}"),
                                  f"x: {tsrc}; `{cond}` ({form}): object {o!r} reaches the {branch} branch but the type inferred there is {u}",
                                  (tsrc, form, cond)))
                    break
            # no widening
            tested = pattern_tested(cond) if form == "match" else tested_types(cond)
            if tested is not None and not member.has_top_any(ty):
                for ob in UNIVERSE:
                    if member.mem(ob.obj, ty) is True:
                        inT = member.mem(ob.obj, T)
                        if inT is False and not any(member.mem(ob.obj, tt) is not False for tt in tested):
                            fails.append((f"widen|{form}|{branch}|{skeleton(cond)}",
                                          f"x: {tsrc}; `{cond}` ({form}): the {branch} branch type {u} contains {ob.src}, which is neither in {tsrc} nor in the tested type",
                                          (tsrc, form, cond)))
                            break
        if col is not None:
            col.case(nontrivial_id=(tsrc, form, cond) if (nontriv or never_branch) else None,
                     label=[f"form:{form}", "splits" if nontriv else ("never-branch" if never_branch else "one-sided")],
                     sample="\n".join(render(0, tsrc, form, cond)))
    return fails


ASSIGNED_LITS = ["[1]", "{1}", '{"a": 1}', "[]", "{}", "set()", "None", "False", "0", '""', "()", "1", '"a"', "(1,)", "True", "0.0", 'b""', "E.a"]


def assigned_cases():
    """x = A if c else B for every pair of literals (mutable and immutable, truthy and falsy)."""
    for a in ASSIGNED_LITS:
        for b in ASSIGNED_LITS:
            if a != b:
                yield a, b


def judge_assigned(pairs, checker, col=None):
    """The truthiness of a local holding one of two literals: `if x` / `else` sites, `not x`, `x and 1`, and the
    always-true / always-false verdict diagnostics, against both runs (c = True, c = False)."""
    import pv_vocab

    lines = gen_prog.HEADER.rstrip("\n").split("\n")
    for i, (a, b) in enumerate(pairs):
        lines += [f"def f{i}(c: bool) -> None:", f"    x = {a} if c else {b}", "    if x:", "        site(x, 0)", "    else:", "        site(x, 1)",
                  "    y = not x", "    site(y, 2)", "    z = bool(x)", "    site(z, 3)"]
    src = "\n".join(lines) + "\n"
    res = sut.check_source(src, checker=checker, collect_values=True, settings=sut.settings_from({"value_always_true": True, "type_always_true": True}))
    if res.raised is not None:
        raise res.raised
    fdefs = [n for n in res.tree.body if isinstance(n, ast.FunctionDef)]
    verdicts = {}
    for d in res.diags:
        if d.code in ("value_always_true", "type_always_true"):
            for fd in fdefs:
                if fd.lineno <= (d.lineno or 0) <= fd.end_lineno and d.lineno == fd.lineno + 2:
                    verdicts[fd.name] = d.description
    inferred = {}
    for fd in fdefs:
        for n in ast.walk(fd):
            if isinstance(n, ast.Call) and isinstance(n.func, ast.Name) and n.func.id == "site":
                inferred[(fd.name, n.args[1].value)] = res.values_of(n.args[0])
    ns = {}
    exec(compile(src, "<c02a>", "exec"), ns)
    fails = []
    for i, (a, b) in enumerate(pairs):
        name = f"f{i}"
        reached = {}
        for c in (True, False):
            pv_vocab._trace[:] = []
            ns[name](c)
            for site, x in pv_vocab._trace:
                reached.setdefault(site, []).append(x)
        if col is not None:
            col.case(nontrivial_id=("assigned", a, b) if reached.get(0) and reached.get(1) else None, label=["form:assigned-literals"])
        if name in verdicts and reached.get(1):
            fails.append((f"verdict|always-true|assigned-literals", f"x = {a} if c else {b}: `if x` is reported ({verdicts[name][:80]}) but x = {reached[1][0]!r} takes the else branch", (a, b)))
            continue
        for site, objs in reached.items():
            vals = inferred.get((name, site))
            if not vals:
                continue
            u = sut.union_of(vals)
            ty = member.from_value(u)
            for o in objs:
                if member.mem(o, ty) is False:
                    what = {0: "the `if x` branch", 1: "the else branch", 2: "`not x`", 3: "`bool(x)`"}[site]
                    fails.append((f"loss|assigned-literals|site{site}", f"x = {a} if c else {b}: {what} sees {o!r} but the inferred type is {u}", (a, b)))
                    break
    return fails


# ----------------------------------------------------------------- API level


_api_ctx = None


def api_cases():
    """Constraints built from the public classes the way the visitor builds them (isinstance ->
    predicate(IsAssignablePredicate), ==/!= -> predicate(EqualsPredicate), in -> InPredicate,
    is -> is_value, truthiness -> is_truthy), all on one varname, closed under and / or / invert."""
    global _api_ctx
    from pyanalyze import value as V
    from pyanalyze.checker import Checker
    from pyanalyze.predicates import EqualsPredicate, InPredicate, IsAssignablePredicate
    from pyanalyze.stacked_scopes import AndConstraint, Constraint, ConstraintType, OrConstraint, VarnameWithOrigin

    if _api_ctx is None:
        _api_ctx = Checker()
    ctx = _api_ctx
    vn = VarnameWithOrigin("x")
    prims = []
    for cs in ((int,), (str,), (bool,), (NS["A"],), (NS["B"],), (list,), (tuple,), (int, str), (type(None),)):
        pat = V.unite_values(*[V.TypedValue(c) for c in cs])
        name = "isinstance(" + ",".join(c.__name__ for c in cs) + ")"
        prims.append((name, Constraint(vn, ConstraintType.predicate, True, IsAssignablePredicate(pat, ctx, positive_only=False)),
                      lambda o, cs=cs: isinstance(o, cs), [("cls", c) for c in cs], []))
    for v in (None, True, False, NS["E"].a):
        prims.append((f"is({v!r})", Constraint(vn, ConstraintType.is_value, True, v), lambda o, v=v: o is v, [("lit", v)], []))
    for v in (1, "a", NS["E"].a, 0):
        prims.append((f"eq({v!r})", Constraint(vn, ConstraintType.predicate, True, EqualsPredicate(v, ctx)),
                      lambda o, v=v: o == v, [("lit", v)], [v]))
    for vs in ((1, 2), ("a",), (NS["E"].a, NS["E"].b)):
        prims.append((f"in({vs!r})", Constraint(vn, ConstraintType.predicate, True, InPredicate(vs, type(vs[0]), ctx)),
                      lambda o, vs=vs: o in vs, [("lit", v) for v in vs], list(vs)))
    prims.append(("truthy", Constraint(vn, ConstraintType.is_truthy, True, None), lambda o: bool(o), [], []))
    out = []
    for name, c, pred, tested, lits in prims:
        out.append((name, c, pred, tested, lits))
        out.append((f"not {name}", c.invert(), lambda o, p=pred: not p(o), tested, lits))
    base = list(out)
    for (n1, c1, p1, t1, l1) in base[::3]:
        for (n2, c2, p2, t2, l2) in base[1::4]:
            out.append((f"({n1}) and ({n2})", AndConstraint.make([c1, c2]), lambda o, a=p1, b=p2: a(o) and b(o), t1 + t2, l1 + l2))
            out.append((f"({n1}) or ({n2})", OrConstraint.make([c1, c2]), lambda o, a=p1, b=p2: a(o) or b(o), t1 + t2, l1 + l2))
            out.append((f"not(({n1}) and ({n2}))", AndConstraint.make([c1, c2]).invert(), lambda o, a=p1, b=p2: not (a(o) and b(o)), t1 + t2, l1 + l2))
    return out


def api_judge(tsrc, col=None):
    from pyanalyze.annotations import type_from_runtime
    from pyanalyze.stacked_scopes import constrain_value

    t = universe.eval_type(tsrc)
    T = member.from_rt(t)
    V = type_from_runtime(t)
    objs = member.inhabitants(T, 14)
    fails = []
    for name, c, pred, tested, lits in api_cases():
        try:
            narrowed = constrain_value(V, c)
        except Exception as e:
            fails.append((f"api-raises|{type(e).__name__}|{name.split('(')[0]}", f"constrain_value({V}, {name}) raised {e!r}", tsrc))
            continue
        ty = member.from_value(narrowed)
        holds = []
        for o in objs:
            if cross_type(o, lits):
                continue
            try:
                if pred(o):
                    holds.append(o)
            except Exception:
                pass
        if col is not None:
            col.case(nontrivial_id=("api", tsrc, name) if holds and len(holds) < len(objs) else None, label="route:api")
        for o in holds:
            if member.mem(o, ty) is False:
                fam = family(o, tsrc, name)
                fails.append(((f"{fam}|api-loss" if fam else f"api-loss|{re.sub(r'[(].*?[)]', '()', name)[:50]}"),
                              f"constrain_value({V}, {name}) = {narrowed} loses {o!r}, for which the condition holds", tsrc))
                break
        if not member.has_top_any(ty):
            for ob in UNIVERSE:
                if member.mem(ob.obj, ty) is True and member.mem(ob.obj, T) is False and not any(
                        member.mem(ob.obj, tt) is not False for tt in tested):
                    fails.append((f"api-widen|{re.sub(r'[(].*?[)]', '()', name)[:50]}",
                                  f"constrain_value({V}, {name}) = {narrowed} contains {ob.src}, neither in {tsrc} nor in the tested type", tsrc))
                    break
    return fails


# ----------------------------------------------------------------- shards


# identity and equality tests against literals that have cross-type-equal twins (True / 1 / 1.0, IntEnum members):
# identity must not be decided by equality
LITERAL_TESTS = [f"x {op} {lit}" for op in ("is", "is not", "==", "!=") for lit in ("True", "False", "None", "E.a", "IE.p", "0", "1")] + [
    "not (x is True)", "not (x is not False)", "x is True or x is None", "x is not True and x is not None",
    "x in (True,)", "x not in (False,)", "x is not IE.q", "x is E.b"]
LITERAL_TYPES = ["Literal[0, 1, 2]", "Literal[0, 1]", "Literal[True, 2]", "Literal[1, True]", "IE", "Literal[IE.p, 1]", "int", "bool",
                 "int | None", "bool | None", "Literal[0, 1] | None", "E | None", "object", "float", "Literal[E.a, E.b]", "IE | int"]


# size tests with the constant on either side, container tests (a str on the right is substring containment),
# class tests against tuples of classes, and flag enums (members combine: != one member does not leave the others)
SIZED_TYPES = ["tuple[int] | tuple[int, int] | tuple[int, int, int]", "tuple[int, ...]", "tuple[int, Unpack[tuple[str, ...]]]", "list[int]", "str",
               'Literal["", "a", "ab"]', "tuple[()] | tuple[int]", "dict[str, int]", "bytes", "tuple[int, str] | tuple[int]", "list[int] | tuple[int, int]"]
SIZED_TESTS = [f"len(x) {op} {n}" for op in ("==", "!=", "<", "<=", ">", ">=") for n in (0, 1, 2, 3)] + \
    [f"{n} {op} len(x)" for op in ("==", "!=", "<", "<=", ">", ">=") for n in (0, 1, 2, 3)] + \
    ["len(x)", "not len(x)", "0 < len(x) < 3", "len(x) in (1, 2)", "not (len(x) > 1)", "len(x) == 1 or len(x) == 3"]
CONTAINER_TYPES = ["str", 'Literal["a", "b", "ab", "c"]', "int", "Literal[1, 2, 3]", "int | str", "object", "E", "Perm", "str | None", "bytes"]
CONTAINER_TESTS = ['x in "abc"', 'x not in "abc"', 'x in ("a", "b")', "x in {1, 2}", 'x not in ["a", 1]', 'x in frozenset({1, "a"})', 'x in {"a": 1, "b": 2}',
                   "x in (E.a, E.b)", "x not in (Perm.R, Perm.W)", "x in (Perm.R,)", "x != Perm.R", "x == Perm.R", "x is Perm.R", "x is not Perm.W",
                   'x in b"ab"', "x in (1, True)", "x in [None, 1]", "x in ()"]
CLASS_TYPES = ["type", "type[object]", "type[A]", "type[int] | type[str]", "type[int | str]", "type[A] | None", "type[B] | type[C]"]
CLASS_TESTS = ["issubclass(x, int)", "issubclass(x, (int, str))", "issubclass(x, A)", "issubclass(x, (A, C))", "issubclass(x, B)", "x is int", "x == A",
               "x is not B", "issubclass(x, (B,))", "not issubclass(x, (int, A))"]
FAMILIES = [(LITERAL_TYPES, None), (SIZED_TYPES, SIZED_TESTS), (CONTAINER_TYPES, CONTAINER_TESTS), (CLASS_TYPES, CLASS_TESTS)]


def family_cases():
    """The three catalogues above, exhaustively (type x test x if/else)."""
    for types, tests in FAMILIES[1:]:
        for t in types:
            for c in tests:
                cond = c if "None" not in t or "is None" in c else f"x is not None and {c}"
                yield t, "ifelse", cond


@st.composite
def case_strategy(draw):
    if draw(st.integers(0, 5)) == 0:
        return draw(st.sampled_from(LITERAL_TYPES)), draw(st.sampled_from(["ifelse", "ifelse", "assert", "early-return"])), \
            draw(st.sampled_from(LITERAL_TESTS))
    tsrc = draw(st.one_of(st.sampled_from(gen_prog.PARAM_TYPES), universe.type_strategy(2, star=False)))
    form = draw(st.sampled_from(FORMS))
    if form == "match":
        return tsrc, form, draw(st.sampled_from(PATTERNS))
    base = tsrc if tsrc in gen_prog.PARAM_TYPES else "object"
    env = gen_prog.Env({"x": base})
    cond = draw(gen_prog.condition(env, 1))
    return tsrc, form, cond


def _non_runtime_protocol(tsrc):
    """A protocol class without @runtime_checkable (HasX, SupportsClose, NodeP, EdgeP ...): isinstance() against it
    raises, which no checked program can reach."""
    try:
        obj = eval(tsrc, universe.NS)
    except Exception:
        return False
    return isinstance(obj, type) and getattr(obj, "_is_protocol", False) and not getattr(obj, "_is_runtime_protocol", False)


def shards(tier, seed):
    n = 16
    out = [{"mode": "program", "index": i, "modules": 30 if tier == "quick" else 600} for i in range(n)]
    out += [{"mode": "families", "index": i, "of": 4} for i in range(4)]
    out += [{"mode": "api", "index": i, "of": 4} for i in range(4)]
    out.append({"mode": "tr"})
    out += [{"mode": "assigned", "index": i, "of": 2} for i in range(2)]
    return out


def run_shard(spec):
    col = runner.Collector(spec)
    checker = sut.new_checker()
    if spec["mode"] == "families":
        cases = [c for k, c in enumerate(family_cases()) if k % spec["of"] == spec["index"]]
        for k in range(0, len(cases), 120):
            for key, what, case in judge(cases[k:k + 120], checker, col):
                col.fail(key, what, {"tsrc": case[0], "form": case[1], "cond": case[2]})
        col.extra["exhaustive_families"] = "sized types x size tests (constant on either side), container tests, class tests: every (type, test) pair as if/else"
        return col.result()
    if spec["mode"] == "assigned":
        pairs = [p for k, p in enumerate(assigned_cases()) if k % spec["of"] == spec["index"]]
        for k in range(0, len(pairs), 60):
            for key, what, case in judge_assigned(pairs[k:k + 60], checker, col):
                col.fail(key, what, {"assigned": list(case)})
        return col.result()
    if spec["mode"] == "tr":
        cases = [("Tr", "ifelse", "x"), ("Tr", "ifelse", "not x"), ("Tr", "early-return", "x"), ("Tr", "assert", "x"),
                 ("Tr | None", "ifelse", "x"), ("Optional[Tr]", "ifelse", "not x")]
        for key, what, case in judge(cases, checker, col):
            col.fail("truthiness-always-true-verdict|loss" if "loss" in key else key, what, {"tsrc": case[0], "form": case[1], "cond": case[2]})
        return col.result()
    if spec["mode"] == "api":
        # non-runtime protocols are left out: the API raises on isinstance() against them,
        # which no checked program can reach (the visitor never builds such a constraint)
        types = [t for t in universe.types_depth1() + list(gen_prog.PARAM_TYPES)
                 if not _non_runtime_protocol(t)][spec["index"]::spec["of"]]
        for tsrc in types:
            if not universe.valid_type_src(tsrc):
                continue
            for key, what, t in api_judge(tsrc, col):
                col.fail(key, what, {"api": True, "tsrc": t})
        col.sample({"api": "constrain_value", "type": types[0]})
        return col.result()

    seed = runner.mix_seed(spec["seed"], ID, spec["name"])

    def make():
        @given(st.lists(case_strategy(), min_size=100, max_size=100))
        def t(cases):
            for key, what, case in judge(cases, checker, col):
                c = {"tsrc": case[0], "form": case[1], "cond": case[2]}
                if col.is_known(key) or key in col.seen_keys:
                    col.fail(key, what, c)
                    continue
                again = replay(c)
                if again is not None:
                    col.fail(again["key"], again["what"], again["case"])
                else:
                    col.unreproduced += 1
        return t

    runner.drive(col, make, seed, spec["modules"], shrink=False)
    return col.result()


def replay_all(case):
    if case.get("api"):
        return [{"key": k, "what": w, "case": case} for k, w, _ in api_judge(case["tsrc"])]
    if case.get("assigned"):
        return [{"key": k, "what": w, "case": case} for k, w, _ in judge_assigned([tuple(case["assigned"])], sut.new_checker())]
    fails = judge([(case["tsrc"], case["form"], case["cond"])], sut.new_checker())
    out = []
    for k, w, _ in fails:
        out.append({"key": k, "what": w, "case": case})
    return out


def replay(case):
    for f in replay_all(case):
        return f
    return None

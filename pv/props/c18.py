"""C18 - configuration layering follows the documented precedence.

Generated stacks of up to three chained TOML files are written to a scratch
directory; every (option, module path) lookup through pyanalyze's Options is
compared with a reference written from the property text / docs/configuration.md.
Invalid stacks must raise InvalidConfigOption.
"""

from __future__ import annotations

import itertools
import json
import os
import re
import shutil
import tempfile
from pathlib import Path

from hypothesis import given, strategies as st

from pv import runner, sut

ID = "C18"
TECHNIQUE = "property-based testing: generated config stacks vs reference precedence model (Hypothesis) + bounded exhaustive lattice"
RULE = (
    "Hypothesis-generated stacks of 1-3 chained TOML files (extend_config at any key position, "
    "top-level values, overrides for prefixes of a.b.c / x, disable_all) plus a command-line layer; "
    "one evaluation = one (stack, option, module path) lookup compared with the reference, or one "
    "invalid stack that must raise InvalidConfigOption; a CLI route runs `python -m pyanalyze --config-file ... "
    "--display-options` on generated stacks and compares the printed effective value and the printed instance "
    "order (precedence order) per option and module with the reference. Non-trivial = at least two layers set the "
    "queried option with different values or the path matches at least two overrides (distinct by "
    "stack hash, option, path); invalid stacks count as non-trivial per (kind, location)."
    ' The command-line layer is also passed as real flags to `--display-options` (-e/-d, --x/--no-x, --x N, repeated --x item) including falsy values; exhaustive command-line lattice through the visitor and CLI routes.'
)
ASSUMPTIONS = [
    "TOML files are written with a small emitter (inline tables for overrides so key order can vary); tomli is trusted",
    "two overrides for the same module in one file are not generated (precedence between them is unspecified)",
    "bool given for an integer option is not generated as invalid (bool is an int in Python)",
]

from pyanalyze.error_code import ErrorCode  # noqa: E402
from pyanalyze.options import ConfigOption, InvalidConfigOption, Options  # noqa: E402

BOOL_CODES = ["undefined_name", "missing_f", "bad_format_string", "possibly_undefined_name"]
BOOL_OPTS = ["for_loop_always_entered", "enforce_no_unused"]
INT_OPTS = ["maximum_positional_args", "union_simplification_limit"]
LIST_OPTS = ["extra_builtins", "disallowed_imports"]
ALL_OPTS = BOOL_CODES + BOOL_OPTS + INT_OPTS + LIST_OPTS
# codes that are only touched through disable_all
PROBE_CODES = ["undefined_attribute", "use_fstrings"]
MODULES = ["a", "a.b", "a.b.c", "x", "a.x"]
PATHS = [(), ("a",), ("a", "b"), ("a", "b", "c"), ("a", "b", "c", "d"), ("x", "y"), ("z",), ("a", "x"),
         # share a textual prefix with an override module without being inside it
         ("ab",), ("a", "bc"), ("a", "b", "cd"), ("xy",), ("a", "xb", "c")]
ALL_CODE_NAMES = {c.name for c in ErrorCode}


def kind_of(opt):
    if opt in BOOL_CODES or opt in BOOL_OPTS or opt in PROBE_CODES:
        return "bool"
    if opt in INT_OPTS:
        return "int"
    return "list"


def default_of(opt):
    return ConfigOption.registry[opt].default_value


# ---------------------------------------------------------------- TOML emitter
def toml_value(v):
    if isinstance(v, bool):
        return "true" if v else "false"
    if isinstance(v, (int, float)):
        return repr(v)
    if isinstance(v, str):
        return json.dumps(v)
    if isinstance(v, (list, tuple)):
        return "[" + ", ".join(toml_value(x) for x in v) + "]"
    if isinstance(v, dict):
        return "{" + ", ".join(f"{k} = {toml_value(x)}" for k, x in v.items()) + "}"
    raise TypeError(v)


def render_file(f, n):
    """f = {"top": [[key, value], ...]} where key "overrides" holds a list of ordered
    [[k, v], ...] lists and "extend_config" the next file's name."""
    lines = ["[tool.pyanalyze]"]
    for key, value in f["top"]:
        if key == "overrides" and isinstance(value, list) and all(
            isinstance(o, list) for o in value
        ):
            tables = []
            for o in value:
                if all(isinstance(e, list) and len(e) == 2 for e in o):
                    tables.append("{" + ", ".join(f"{k} = {toml_value(v)}" for k, v in o) + "}")
                else:
                    tables.append(toml_value(o))
            lines.append("overrides = [" + ", ".join(tables) + "]")
        else:
            lines.append(f"{key} = {toml_value(value)}")
    return "\n".join(lines) + "\n"


def write_stack(stack, d):
    for i, f in enumerate(stack):
        # `@D@` in an extend_config value stands for the name of the directory the stack is written to
        # (`../@D@/f1.toml` is another spelling of `f1.toml`)
        Path(d, f"f{i}.toml").write_text(render_file(f, i).replace("@D@", Path(d).name))
    return Path(d, "f0.toml")


# ---------------------------------------------------------------- reference
def section_value(entries, opt):
    """Value a section assigns to opt, or None.  entries: ordered [key, value]."""
    explicit = None
    disable_all = False
    for k, v in entries:
        if k == opt:
            explicit = (v,)
        elif k == "disable_all" and v is True:
            disable_all = True
    if explicit is not None:
        return explicit
    if disable_all and opt in ALL_CODE_NAMES:
        return (False,)
    return None


def reference(stack, cmdline, opt, path):
    """Returns (value, layers) with layers = [(label, value), ...] in precedence order."""
    layers = []
    if opt in cmdline:
        layers.append(("cmd", cmdline[opt]))
    for i, f in enumerate(stack):
        overrides = []
        for k, v in f["top"]:
            if k == "overrides":
                for o in v:
                    mod = tuple(dict((a, b) for a, b in o)["module"].split("."))
                    if path[: len(mod)] == mod:
                        overrides.append((len(mod), o))
        overrides.sort(key=lambda t: -t[0])
        for n, o in overrides:
            sv = section_value(o, opt)
            if sv is not None:
                layers.append((f"f{i}.ov{n}", sv[0]))
        sv = section_value([e for e in f["top"] if e[0] != "overrides"], opt)
        if sv is not None:
            layers.append((f"f{i}.top", sv[0]))
    layers.append(("default", default_of(opt)))
    if kind_of(opt) == "list":
        out = []
        for _, v in layers:
            out += list(v)
        return out, layers
    return layers[0][1], layers


def observe(stack, cmdline, d):
    main = write_stack(stack, d)
    instances = []
    for opt, v in cmdline.items():
        instances.append(ConfigOption.registry[opt](v, from_command_line=True))
    return Options.from_option_list(instances, config_file_path=main)


def lookup(options, opt, path):
    o = options.for_module(path)
    if opt in ALL_CODE_NAMES:
        return o.is_error_code_enabled(getattr(ErrorCode, opt))
    return o.get_value_for(ConfigOption.registry[opt])


def check_valid(stack, cmdline, d, col, queries=None, via_visitor=False):
    """Compare all (option, path) lookups.  Returns list of failure tuples."""
    fails = []
    try:
        if via_visitor:
            settings = {getattr(ErrorCode, k): v for k, v in cmdline.items() if k in ALL_CODE_NAMES}
            kw = {k: v for k, v in cmdline.items() if k not in ALL_CODE_NAMES}
            main = write_stack(stack, d)
            from pyanalyze.name_check_visitor import NameCheckVisitor

            with sut.quiet():
                options = NameCheckVisitor.prepare_constructor_kwargs(
                    dict(kw, settings=settings, config_file=main)
                )["checker"].options
        else:
            options = observe(stack, cmdline, d)
    except InvalidConfigOption as e:
        return [("valid-rejected", f"valid stack rejected: {e}", None, None)]
    shash = runner.h64(json.dumps([stack, cmdline], sort_keys=True))
    ext_pos = ext_position(stack)
    for opt, path in queries or itertools.product(ALL_OPTS + PROBE_CODES, PATHS):
        path = tuple(path)
        exp, layers = reference(stack, cmdline, opt, path)
        got = lookup(options, opt, path)
        got_n = list(got) if kind_of(opt) == "list" else got
        setters = [l for l in layers[:-1]]
        nontriv = len({json.dumps(v) for _, v in layers}) >= 2 and len(layers) >= 3
        n_ov = sum(1 for l, _ in setters if ".ov" in l)
        if n_ov >= 2:
            nontriv = True
        if col is not None:
            col.case(
                nontrivial_id=(shash, opt, path) if nontriv else None,
                label=[f"kind:{kind_of(opt)}", f"layers:{min(len(layers), 5)}", f"top:{layers[0][0].split('.')[-1][:3]}"],
            )
        bad = False
        if kind_of(opt) == "list":
            # The default must come last; pyanalyze appends it twice (once as a pseudo
            # instance, once in ConcatenatedOption) which the property does not forbid:
            # compare the part before the trailing default block exactly.
            dflt = list(default_of(opt))
            a, b = list(got_n), list(exp)
            ok_tail = a[len(a) - len(dflt):] == dflt if dflt else True
            while dflt and a[len(a) - len(dflt):] == dflt:
                del a[len(a) - len(dflt):]
            while dflt and b[len(b) - len(dflt):] == dflt:
                del b[len(b) - len(dflt):]
            if not ok_tail or a != b:
                bad = True
                key = "list|" + ("order" if sorted(a) == sorted(b) else "content")
        elif got_n != exp or type(got_n) is not type(exp):
            bad = True
            got_layer = next((l for l, v in layers if v == got and type(v) is type(got)), "?")
            strip = lambda l: l.split(".ov")[0] + (".ov" if ".ov" in l else "")
            key = f"{kind_of(opt)}|exp={strip(layers[0][0])}|got={strip(got_layer)}"
        if bad:
            fails.append((key, f"option {opt} for module {'.'.join(path) or '()'}: expected {exp!r} "
                          f"(layers {layers}; extend_config position {ext_pos}), pyanalyze gives {got_n!r}", opt, path))
    return fails


def shadowed_by_disable_all(stack, label, opt):
    """Does the section behind a reference layer label (f<i>.top / f<i>.ov<n>) set opt explicitly and also
    hold `disable_all = true` (explicit False: two equal instances are listed)?"""
    m = re.match(r"^f(\d+)\.(top|ov(\d+))$", label)
    if not m:
        return False
    f = stack[int(m.group(1))]
    sections = []
    if m.group(2) == "top":
        sections.append([e for e in f["top"] if e[0] != "overrides"])
    else:
        for k, v in f["top"]:
            if k == "overrides":
                sections += [o for o in v if len(dict((a, b) for a, b in o)["module"].split(".")) == int(m.group(3))]
    # pyanalyze adds a False instance for every code the section does not explicitly *enable*
    return any(any(k == opt and v is False for k, v in sec) and any(k == "disable_all" and v is True for k, v in sec) for sec in sections)


def cli_flags(cmdline):
    """The command-line spelling of a cmdline mapping: -e/-d for error codes, --x / --no-x for booleans,
    --x N for integers, one --x item per list element (an empty list cannot be spelt and is left out)."""
    flags, effective = [], {}
    for opt, v in cmdline.items():
        flag = "--" + opt.replace("_", "-")
        if opt in ALL_CODE_NAMES:
            flags += ["-e" if v else "-d", opt]
        elif kind_of(opt) == "bool":
            flags.append(flag if v else "--no-" + opt.replace("_", "-"))
        elif kind_of(opt) == "int":
            flags += [flag, str(v)]
        else:
            if not v:
                continue
            for item in v:
                flags += [flag, item]
        effective[opt] = v
    return flags, effective


def display_check(stack, d, col=None, cmdline=None):
    """`python -m pyanalyze --config-file f0.toml --display-options`: the printed effective value and the
    printed instance order (pyanalyze lists them in precedence order) against the reference, for the root
    module path and for every override module that appears."""
    import ast as _ast

    main = write_stack(stack, d)
    flags, cmdline = cli_flags(cmdline or {})
    code, out, err = sut.run_cli(["--config-file", str(main), "--display-options"] + flags, cwd=d)
    if code != 0 or "Options:" not in out:
        return [("cli|display-options-failed", f"exit status {code}: {(err or out)[-300:]}", None, None)]
    shown = {}
    cur = None
    for line in out.splitlines():
        m = re.match(r"^    (\w+) \(value: (.*)\)$", line)
        if m:
            cur = m.group(1)
            shown[cur] = {"value": m.group(2), "instances": []}
            continue
        m = re.match(r"^        (.*) \(((?:module: ([\w.]+), )?from (?:config file|command line))\)$", line)
        if m and cur:
            shown[cur]["instances"].append((m.group(1), tuple(m.group(3).split(".")) if m.group(3) else ()))

    def parse(text):
        try:
            return _ast.literal_eval(text)
        except Exception:
            return text
    fails = []
    for opt in ALL_OPTS:
        if opt not in shown:
            continue
        mods = sorted({mod for _, mod in shown[opt]["instances"]} | {()})
        for path in mods:
            exp, layers = reference(stack, cmdline, opt, path)
            want = []
            for label, v in layers[:-1]:
                want.append(v)
                if opt in ALL_CODE_NAMES and shadowed_by_disable_all(stack, label, opt):
                    # a section holding both `disable_all = true` and an explicit value for the code yields
                    # two instances; the explicit one comes first (it decides, as the lookups confirm)
                    want.append(False)
            got = [parse(t) for t, mod in shown[opt]["instances"] if path[: len(mod)] == mod]
            norm = lambda xs: [list(x) if isinstance(x, (list, tuple)) else x for x in xs]
            if col is not None:
                col.case(nontrivial_id=("cli", runner.h64(json.dumps([stack, cmdline], sort_keys=True)), opt, path) if len(want) >= 2 else None,
                         label=["route:cli-display", f"kind:{kind_of(opt)}"] + (["cli:flag-given" + (":falsy" if not cmdline[opt] else "")] if opt in cmdline else []))
            if norm(got) != norm(want):
                fails.append((f"cli|instance-order|{kind_of(opt)}",
                              f"--display-options lists for {opt} and module {'.'.join(path) or '()'} the values {got} in precedence order; "
                              f"the reference order is {want} (layers {layers})", opt, path))
        if kind_of(opt) != "list":
            exp, layers = reference(stack, cmdline, opt, ())
            if parse(shown[opt]["value"]) != exp:
                fails.append((f"cli|value|{kind_of(opt)}", f"--display-options shows {opt} (value: {shown[opt]['value']}), reference says {exp!r}", opt, ()))
    return fails


def ext_position(stack):
    keys = [k for k, _ in stack[0]["top"]]
    if "extend_config" not in keys:
        return "none"
    i = keys.index("extend_config")
    return "first" if i == 0 else ("last" if i == len(keys) - 1 else "mid")


# ---------------------------------------------------------------- generators
def value_for(opt, tag):
    k = kind_of(opt)
    if k == "bool":
        return st.booleans()
    if k == "int":
        return st.integers(0, 50)
    return st.lists(st.sampled_from([f"{tag}_p", f"{tag}_q", "shared"]), max_size=2)


@st.composite
def section_entries(draw, tag, allow_disable_all=True):
    opts = draw(st.lists(st.sampled_from(ALL_OPTS), unique=True, max_size=4))
    entries = [[o, draw(value_for(o, tag))] for o in opts]
    if allow_disable_all and draw(st.integers(0, 5)) == 0:
        entries.append(["disable_all", draw(st.sampled_from([True, True, False]))])
    return draw(st.permutations(entries))


# spellings of a path to a file in the same directory
SPELLINGS = ["", "", "./", "../@D@/", "../@D@/./"]


@st.composite
def stacks(draw):
    n = draw(st.integers(1, 3))
    stack = []
    for i in range(n):
        top = list(draw(section_entries(f"f{i}t")))
        mods = draw(st.lists(st.sampled_from(MODULES), unique=True, max_size=3))
        if mods:
            ovs = []
            for j, m in enumerate(mods):
                body = list(draw(section_entries(f"f{i}o{j}")))
                body.insert(draw(st.integers(0, len(body))), ["module", m])
                ovs.append(body)
            top.insert(draw(st.integers(0, len(top))), ["overrides", ovs])
        if i + 1 < n:
            top.insert(draw(st.integers(0, len(top))), ["extend_config", draw(st.sampled_from(SPELLINGS)) + f"f{i + 1}.toml"])
        stack.append({"top": top})
    cmd_opts = draw(st.lists(st.sampled_from(ALL_OPTS), unique=True, max_size=3))
    cmdline = {o: draw(value_for(o, "cmd")) for o in cmd_opts}
    return stack, cmdline


INVALID_KINDS = [
    "unknown_key", "str_for_bool", "str_for_int", "float_for_int", "bool_for_int", "int_for_bool", "scalar_for_list",
    "nonstr_list_item", "disable_all_str", "disable_all_int", "override_no_module",
    "override_nonstr_module", "top_module", "nested_overrides", "overrides_not_list",
    "override_not_table", "extend_nonstr", "self_include", "mutual_include", "missing_file",
]


@st.composite
def invalid_stacks(draw):
    stack, cmdline = draw(stacks())
    kind = draw(st.sampled_from(INVALID_KINDS))
    fi = draw(st.integers(0, len(stack) - 1))
    f = stack[fi]
    ovs = [e for e in f["top"] if e[0] == "overrides"]
    in_override = bool(ovs) and draw(st.booleans())
    loc = f"f{fi}." + ("ov" if in_override else "top")

    def target():
        return draw(st.sampled_from(ovs[0][1])) if in_override else f["top"]

    def put(entry):
        t = target()
        t.insert(draw(st.integers(0, len(t))), entry)

    def drop(t, key):
        t[:] = [e for e in t if e[0] != key]

    if kind == "unknown_key":
        put([draw(st.sampled_from(["no_such_option", "undefined_nam", "Paths", "modul"])), True])
    elif kind in ("str_for_bool", "str_for_int", "float_for_int", "bool_for_int", "int_for_bool", "scalar_for_list", "nonstr_list_item"):
        opt, val = {
            "str_for_bool": (draw(st.sampled_from(BOOL_CODES + BOOL_OPTS)), "true"),
            "str_for_int": (draw(st.sampled_from(INT_OPTS)), "3"),
            "float_for_int": (draw(st.sampled_from(INT_OPTS)), 2.5),
            "bool_for_int": (draw(st.sampled_from(INT_OPTS)), draw(st.booleans())),
            "int_for_bool": (draw(st.sampled_from(BOOL_CODES + BOOL_OPTS)), draw(st.sampled_from([0, 1]))),
            "scalar_for_list": (draw(st.sampled_from(LIST_OPTS)), draw(st.sampled_from(["abc", 3, True]))),
            "nonstr_list_item": (draw(st.sampled_from(LIST_OPTS)), ["ok", 3]),
        }[kind]
        t = target()
        drop(t, opt)
        t.insert(draw(st.integers(0, len(t))), [opt, val])
    elif kind in ("disable_all_str", "disable_all_int"):
        t = target()
        drop(t, "disable_all")
        t.insert(draw(st.integers(0, len(t))),
                 ["disable_all", draw(st.sampled_from(["no", "false", ""])) if kind.endswith("str")
                  else draw(st.sampled_from([0, 1, 2]))])
    elif kind in ("override_no_module", "override_nonstr_module", "nested_overrides", "override_not_table"):
        loc = f"f{fi}.ov"
        if not ovs:
            ovs = [["overrides", [[["module", "a"]]]]]
            f["top"].insert(draw(st.integers(0, len(f["top"]))), ovs[0])
        o = draw(st.sampled_from(ovs[0][1]))
        if kind == "override_no_module":
            drop(o, "module")
        elif kind == "override_nonstr_module":
            drop(o, "module")
            o.insert(0, ["module", draw(st.sampled_from([3, True, ["a"]]))])
        elif kind == "nested_overrides":
            o.append(["overrides", [[["module", "a.q"]]]])
        else:
            ovs[0][1].insert(draw(st.integers(0, len(ovs[0][1]))), draw(st.sampled_from([3, "a", True])))
    elif kind == "top_module":
        loc = f"f{fi}.top"
        f["top"].insert(draw(st.integers(0, len(f["top"]))), ["module", "a"])
    elif kind == "overrides_not_list":
        loc = f"f{fi}.top"
        drop(f["top"], "overrides")
        f["top"].insert(draw(st.integers(0, len(f["top"]))),
                        ["overrides", draw(st.sampled_from([3, "a", {"module": "a"}]))])
    elif kind == "extend_nonstr":
        loc = f"f{fi}.top"
        drop(f["top"], "extend_config")
        del stack[fi + 1:]
        f["top"].insert(draw(st.integers(0, len(f["top"]))), ["extend_config", draw(st.sampled_from([3, True, ["f1.toml"]]))])
    elif kind in ("self_include", "mutual_include", "missing_file"):
        last = stack[-1]
        loc = f"f{len(stack) - 1}.top"
        tgt = {"self_include": f"f{len(stack) - 1}.toml",
               "mutual_include": "f0.toml",
               "missing_file": "nonexistent.toml"}[kind]
        if kind == "mutual_include" and len(stack) == 1:
            kind = "self_include"
        if kind != "missing_file" and draw(st.booleans()):
            # a cycle in which every edge is spelt in non-resolved form
            for g in stack[:-1]:
                g["top"][:] = [[k, ("../@D@/" + v.split("/")[-1]) if k == "extend_config" else v] for k, v in g["top"]]
            tgt = "../@D@/" + tgt
        last["top"].insert(draw(st.integers(0, len(last["top"]))), ["extend_config", tgt])
    return stack, cmdline, kind, loc


def check_invalid(stack, cmdline, d):
    try:
        observe(stack, cmdline, d)
    except InvalidConfigOption:
        return True
    except Exception as e:  # some other exception is not "a configuration error"
        return f"{type(e).__name__}: {e}"
    return False


# ---------------------------------------------------------------- exhaustive lattice
def lattice_cases(opt_by_kind):
    """Three files; each sets the option at {unset, top, ov a, ov a.b} (values distinct);
    extend_config first / last among the keys; all paths."""
    places = ["unset", "top", "a", "a.b"]
    for kind, opt in opt_by_kind.items():
        for combo in itertools.product(places, repeat=3):
            for ext in ("first", "last"):
                for cmd in (False, True):
                    stack = []
                    for i, place in enumerate(combo):
                        val = {"bool": (i % 2 == 0), "int": 10 + i, "list": [f"v{i}"]}[kind]
                        # a second, different value at top level when the override carries the value
                        top = []
                        if place == "top":
                            top.append([opt, val])
                        elif place in ("a", "a.b"):
                            other = {"bool": not val, "int": 20 + i, "list": [f"t{i}"]}[kind]
                            top.append([opt, other])
                            top.append(["overrides", [[["module", place], [opt, val]]]])
                        if i < 2:
                            ent = ["extend_config", f"f{i + 1}.toml"]
                            if ext == "first":
                                top.insert(0, ent)
                            else:
                                top.append(ent)
                        stack.append({"top": top})
                    cmdline = {opt: {"bool": True, "int": 99, "list": ["cmd"]}[kind]} if cmd else {}
                    yield stack, cmdline, opt


def cmdline_lattice():
    """Every option kind given on the command line with a falsy and a truthy value, over a main file that leaves
    the option unset / sets the other value at top level / sets it in an override of module a."""
    vals = {"bool": (False, True), "int": (0, 7), "list": (["cmd"], ["cmd", "shared"])}
    for opt in BOOL_CODES[:2] + BOOL_OPTS + INT_OPTS + LIST_OPTS:
        k = kind_of(opt)
        for i, v in enumerate(vals[k]):
            other = vals[k][1 - i]
            for place in ("unset", "top", "a"):
                top = []
                if place == "top":
                    top.append([opt, other])
                elif place == "a":
                    top.append(["overrides", [[["module", "a"], [opt, other]]]])
                yield [{"top": top}], {opt: v}, opt


# ---------------------------------------------------------------- shards
def shards(tier, seed):
    n = 16
    per = 150 if tier == "quick" else 3000
    inv = 120 if tier == "quick" else 2000
    out = [{"mode": "random", "index": i, "stacks": per, "invalid": inv} for i in range(n)]
    out.append({"mode": "lattice"})
    out += [{"mode": "visitor", "index": i, "stacks": 25 if tier == "quick" else 300} for i in range(2)]
    out += [{"mode": "cli", "index": i, "stacks": 8 if tier == "quick" else 150} for i in range(3)]
    out += [{"mode": "cmdline-lattice", "index": i, "of": 4} for i in range(4)]
    return out


def run_shard(spec):
    col = runner.Collector(spec)
    d = tempfile.mkdtemp(prefix="pv_c18_")
    try:
        if spec["mode"] == "lattice":
            n = 0
            for stack, cmdline, opt in lattice_cases(
                {"bool": "missing_f", "int": "maximum_positional_args", "list": "extra_builtins"}
            ):
                queries = [(opt, p) for p in PATHS]
                for key, what, o, p in check_valid(stack, cmdline, d, col, queries):
                    col.fail(key, what, {"stack": stack, "cmdline": cmdline, "opt": o, "path": p})
                n += 1
            col.extra["exhaustive_lattice_stacks"] = n
            col.extra["exhaustive"] = False
            col.sample({"lattice_stack": render_file(stack[0], 0)})
            return col.result()

        if spec["mode"] == "cmdline-lattice":
            n = 0
            for i, (stack, cmdline, opt) in enumerate(cmdline_lattice()):
                if i % spec["of"] != spec["index"]:
                    continue
                queries = [(opt, p) for p in PATHS]
                for key, what, o, p in check_valid(stack, cmdline, d, col, queries, via_visitor=True):
                    col.fail("visitor|" + key, what, {"stack": stack, "cmdline": cmdline, "opt": o, "path": p, "via_visitor": True})
                for key, what, o, p in display_check(stack, d, col, cmdline):
                    col.fail(key, what, {"stack": stack, "cmdline": cmdline, "opt": o, "path": p, "cli": True})
                n += 1
            col.extra["exhaustive_cmdline_lattice"] = n
            return col.result()

        seed = runner.mix_seed(spec["seed"], ID, spec["name"])

        if spec["mode"] == "cli":
            def make_c():
                @given(stacks())
                def t(sc):
                    stack, cmdline = sc
                    for key, what, o, p in display_check(stack, d, col, cmdline):
                        col.fail(key, what, {"stack": stack, "cmdline": cmdline, "opt": o, "path": p, "cli": True}, raise_new=True)
                return t
            runner.drive(col, make_c, seed, spec["stacks"], replay=replay)
            return col.result()

        if spec["mode"] == "visitor":
            def make_v():
                @given(stacks())
                def t(sc):
                    stack, cmdline = sc
                    for key, what, o, p in check_valid(stack, cmdline, d, col, via_visitor=True):
                        col.fail("visitor|" + key, what,
                                 {"stack": stack, "cmdline": cmdline, "opt": o, "path": p, "via_visitor": True},
                                 raise_new=True)
                return t
            runner.drive(col, make_v, seed, spec["stacks"], replay=replay)
            return col.result()

        def make_valid():
            @given(stacks())
            def t(sc):
                stack, cmdline = sc
                fails = check_valid(stack, cmdline, d, col)
                col.sample({"files": [render_file(f, i) for i, f in enumerate(stack)], "cmdline": cmdline})
                for key, what, o, p in fails:
                    col.fail(key, what, {"stack": stack, "cmdline": cmdline, "opt": o, "path": p},
                             raise_new=True)
            return t

        runner.drive(col, make_valid, seed, spec["stacks"], replay=replay)

        def make_invalid():
            @given(invalid_stacks())
            def t(sc):
                stack, cmdline, kind, loc = sc
                r = check_invalid(stack, cmdline, d)
                col.case(nontrivial_id=("invalid", kind, loc), label=f"invalid:{kind}")
                if r is not True:
                    col.fail(f"invalid|{kind}", f"invalid stack ({kind} at {loc}) "
                             + ("accepted silently" if r is False else f"raised {r}"),
                             {"stack": stack, "cmdline": cmdline, "invalid": kind, "loc": loc},
                             raise_new=True)
            return t

        runner.drive(col, make_invalid, seed + 1, spec["invalid"], replay=replay)
        return col.result()
    finally:
        shutil.rmtree(d, ignore_errors=True)


def replay(case):
    d = tempfile.mkdtemp(prefix="pv_c18_")
    try:
        if "invalid" in case:
            r = check_invalid(case["stack"], case["cmdline"], d)
            if r is True:
                return None
            return {"key": f"invalid|{case['invalid']}",
                    "what": f"invalid stack ({case['invalid']} at {case.get('loc')}) "
                    + ("accepted silently" if r is False else f"raised {r}"),
                    "case": case}
        if case.get("cli"):
            for key, what, o, p in display_check(case["stack"], d, None, case.get("cmdline")):
                return {"key": key, "what": what, "case": case}
            return None
        q = [(case["opt"], tuple(case["path"]))] if case.get("opt") else None
        via = bool(case.get("via_visitor"))
        for key, what, o, p in check_valid(case["stack"], case["cmdline"], d, None, q, via_visitor=via):
            return {"key": ("visitor|" if via else "") + key, "what": what, "case": case}
        return None
    finally:
        shutil.rmtree(d, ignore_errors=True)

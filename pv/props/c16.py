"""C16 - automatic fixes are safe: valid code, error gone, nothing else changed."""

from __future__ import annotations

import ast
import collections
import re
import subprocess
import warnings

from hypothesis import given, strategies as st

from pv import corpus, runner, sut
from pv.c10_child import normalise

warnings.filterwarnings("ignore")

ID = "C16"
TECHNIQUE = "stateful property-based testing: generated programs with fixable diagnostics are driven through sequences of fix-apply-recheck steps (add-ignores and autofix, first change only, as the CLI does); invariants on every intermediate text (parses, proposer gone, AST change is the intended one, convergence)"
RULE = (
    "programs = generated functions holding fixable constructs in varied positions (unused variables / assignments "
    "as sole statement of a block, first / last line, multi-line right-hand side, tuple and comprehension targets; "
    "missing_f; use_fstrings; too_many_positional_args with a lowered limit; removable unused ignores) and corpus "
    "snippets (for add-ignores). A history = repeated steps of `check_for_test(apply_changes=True)` (autofix) or "
    "the same with add_ignores, each applying the first proposed change, up to the fixpoint. Invariants per step: "
    "(1) the new text parses; (2) the diagnostic that proposed the applied change is gone; (3) add-ignores leaves "
    "the AST unchanged, autofix changes it exactly as intended (one statement deleted for unused variables, one "
    "expression replaced whose value agrees with the old one on generated environments for missing_f / "
    "use_fstrings / positional->keyword rewrites, comments only for unused ignores); (4) add-ignores reaches 'no "
    "diagnostics' within len(D(P)) + 2 steps without revisiting a text; (5) removing any one added comment "
    "re-exposes exactly the diagnostics of one line. Non-trivial = history with >=2 steps or a diagnostic on line "
    "1 / two codes on one line / inside a multi-line statement (distinct by program)."
    ' Generated programs also hold decorated defs (a wrapping decorator makes double application visible), fixable comprehensions in default values and over iterables of known members in local assignments, and multi-line statements whose last line is flush with the first.'
)
ASSUMPTIONS = [
    "fixes are applied in-process through check_for_test(apply_changes=True), which shares _apply_changes_to_lines with the CLI",
    "expression equivalence is checked by evaluating old and new expression on small generated environments, and for comprehension-target and positional->keyword rewrites by running the generated functions before and after the fix on small argument sets",
]
MAX_ABSTAIN = 0.8

FIX_CODES = {"unused_variable": True, "unused_assignment": True, "missing_f": True, "use_fstrings": True,
             "too_many_positional_args": True, "unused_ignore": True}


def first_line(m):
    ls = [l for l in m.split("\n") if l.strip()]
    return normalise(ls[0]) if ls else ""


_checkers = {}


def checker_for(name):
    if name not in _checkers or _checkers[name][1] > 300:
        if name == "fix":
            ch = sut.new_checker(settings=sut.settings_from(FIX_CODES), maximum_positional_args=2)
        else:
            ch = sut.new_checker()
        _checkers[name] = [ch, 0]
    _checkers[name][1] += 1
    return _checkers[name][0]


def run(src, add_ignores, settings=None, extra=None):
    res = sut.check_source(src, checker=checker_for("default"), apply_changes=True, add_ignores=add_ignores)
    if res.raised is not None:
        raise res.raised
    return res


def diag_key(d):
    return (d.code, d.lineno, first_line(d.message))


# ----------------------------------------------------------------- add-ignores histories


def add_ignore_history(src, col=None):
    """Returns list of (key, what) failures."""
    fails = []
    try:
        base = run(src, True)
    except BaseException as e:
        if isinstance(e, (KeyboardInterrupt, SystemExit)):
            raise
        return None
    d0 = [d for d in base.diags if d.lineno is not None]
    if not d0:
        return None
    n0 = len(d0)
    tree0 = ast.dump(ast.parse(src))
    seen = {src}
    cur, res = src, base
    steps = 0
    features = set()
    lines0 = {}
    for d in d0:
        lines0.setdefault(d.lineno, set()).add(d.code)
    if 1 in lines0:
        features.add("line1")
    if any(len(c) > 1 for c in lines0.values()):
        features.add("two-codes-one-line")
    while True:
        diags = [d for d in res.diags if d.lineno is not None]
        if not diags:
            break
        if steps >= n0 + 2:
            codes_here = sorted({c for cs in lines0.values() if len(cs) > 1 for c in cs})
            fails.append((f"add-ignores|no-convergence|{'two-codes-one-line' if any(len(c) > 1 for c in lines0.values()) else 'other'}",
                          f"after {steps} add-ignore steps ({n0} initial diagnostics) {len(diags)} diagnostics remain: {[diag_key(d)[:2] for d in diags][:4]}"))
            break
        new = res.new_code
        steps += 1
        if new is None or new == cur:
            fails.append(("add-ignores|no-change", f"a diagnostic remains but no change was produced: {diag_key(diags[0])}"))
            break
        try:
            t = ast.dump(ast.parse(new))
        except SyntaxError as e:
            fails.append(("add-ignores|does-not-parse", f"text after step {steps} does not parse: {e}"))
            break
        if t != tree0:
            fails.append(("add-ignores|ast-changed", f"the syntax tree changed at step {steps}"))
            break
        if new in seen:
            fails.append(("add-ignores|revisits-text", f"step {steps} returns to an earlier text"))
            break
        seen.add(new)
        first = diags[0]
        try:
            res = run(new, True)
        except BaseException as e:
            if isinstance(e, (KeyboardInterrupt, SystemExit)):
                raise
            fails.append((f"add-ignores|recheck-raises|{type(e).__name__}", f"re-checking after step {steps} raised {e!r}"))
            break
        # the proposer is the first diagnostic; the comment goes above its line
        still = [d for d in res.diags if d.code == first.code and d.lineno == first.lineno + 1 and first_line(d.message) == first_line(first.message)]
        if still:
            where = "line1" if first.lineno == 1 else "other"
            fails.append((f"add-ignores|proposer-not-silenced|{where}", f"step {steps}: {diag_key(first)} is still reported after its ignore was inserted"))
            break
        cur = new
    if not fails and cur != src and steps >= 1:
        # (5) each added comment suppresses only the diagnostics of one line
        final_lines = cur.split("\n")
        added = [i for i, l in enumerate(final_lines) if l.strip().startswith("# static analysis: ignore")
                 and l.strip() not in {x.strip() for x in src.split("\n")}]
        for i in added[:6]:
            without = "\n".join(final_lines[:i] + final_lines[i + 1:])
            try:
                r = run(without, False)
            except BaseException as e:
                if isinstance(e, (KeyboardInterrupt, SystemExit)):
                    raise
                continue
            lines_hit = {d.lineno for d in r.diags if d.lineno is not None and d.code not in ("unused_ignore", "bare_ignore")}
            if len(lines_hit) > 1:
                fails.append(("add-ignores|comment-covers-several-lines", f"removing the comment on line {i + 1} re-exposes diagnostics on lines {sorted(lines_hit)}"))
                break
    if col is not None:
        if steps >= 2:
            features.add("multi-step")
        col.case(nontrivial_id=src if features else None, label=["route:add-ignores"] + sorted(features), sample=src[:300] if features else None)
    return fails


# ----------------------------------------------------------------- autofix templates

NAMES = ["a", "b", "c"]

# contexts an expression E can sit in; several hold non-AST items in AST lists (None keys of `**` entries,
# None kw_defaults, names of global statements) or siblings that must survive the rewrite untouched
CONTEXTS = ["{E}", "{E}", "{{**b, 'k': {E}}}", "{{'j': a, **b, 'k': {E}, **b}}", "(lambda *, k, j=1: {E})(k=1)", "[*b, {E}]",
            "({E}, b)[0]", "({E} if a else b)", "[{E}, {E}]", "len([{E}])", "(b, *[{E}])", "{{{E}: b}}", "[{E}][0:1]"]


def in_context(draw, e):
    return draw(st.sampled_from(CONTEXTS)).replace("{{", "\0").replace("}}", "\1").replace("{E}", e).replace("\0", "{").replace("\1", "}")



FLUSH_SHAPES = [['X = """hello', 'world"""'], ["X = (a,", "b)"], ["X = [a,", "b,", "a]"], ["X = a + \\", "b"],
                ["X = {'k': a,", "'j': b}"], ["X = '''p", "q", "r'''"]]


@st.composite
def fixable_function(draw, i):
    kind = draw(st.sampled_from(["unused", "unused", "unused-sole", "unused-multiline", "unused-tuple", "unused-comp",
                                 "missing_f", "use_fstrings-percent", "use_fstrings-format", "too-many-positional",
                                 "unused-ignore-trailing", "unused-ignore-own-line", "unused-aug", "unused-line1",
                                 "unused-unicode", "use_fstrings-unicode", "unused-chain", "unused-chain-3", "unused-multiline-flush",
                                 "header-comp"]))
    wrap = draw(st.sampled_from(["none", "none", "if", "for", "try", "with", "class", "semicolons", "inline-if", "inline-def"]))
    head = f"def f{i}(a, b):"
    decorated = draw(st.integers(0, 3)) == 0
    if kind == "header-comp":
        # a fixable expression in the header of a (possibly decorated) def: a default value
        it = draw(st.sampled_from(["range(3)", "(1, 2)", '"ab"']))
        comp = draw(st.sampled_from([f"[1 for x{i} in {it}]", f"{{1 for x{i} in {it}}}", f"{{1: 0 for x{i} in {it}}}"]))
        head = f"{draw(st.sampled_from(['', '', 'async ']))}def f{i}(a, b={comp}):"
    body = []
    if kind == "unused":
        body = [f"x{i} = a + 1", "return b"]
    elif kind == "unused-chain":
        # several plain targets, only some of them unused
        body = [f"x{i} = y{i} = a", f"return y{i}"] if draw(st.booleans()) else [f"y{i} = x{i} = a", f"return y{i}"]
    elif kind == "unused-chain-3":
        body = [f"x{i} = y{i} = z{i} = a + 0", f"return (y{i}, b)"]
    elif kind == "unused-unicode":
        # multi-byte characters: AST column offsets count UTF-8 bytes, text columns count characters
        body = [f'x{i} = "こんにちは世界、こんにちは"', "return b"]
    elif kind == "use_fstrings-unicode":
        body = [f'y{i} = "こんにちは世界、こんにちは%s" % a', f"return y{i}"]
    elif kind == "unused-sole":
        body = ["if a:", f"    x{i} = 1", "return b"]
    elif kind == "unused-multiline":
        body = [f"x{i} = [", "    a,", "    b,", "]", "return b"]
    elif kind == "unused-multiline-flush":
        # statements spanning several lines whose last line is not indented deeper than the first and is not a
        # lone closing bracket
        body = draw(st.sampled_from(FLUSH_SHAPES))
        body = [l.replace("X", f"x{i}") for l in body] + ["return b"]
    elif kind == "header-comp":
        body = ["return b"]
    elif kind == "unused-tuple":
        body = [f"x{i}, y{i} = a, b", "return a"]
    elif kind == "unused-comp":
        comp = draw(st.sampled_from([f"[1 for x{i} in a]", f"{{1 for x{i} in a}}", f"{{1: b for x{i} in a}}", f"list(1 for x{i} in a)",
                                     f"[z{i} for z{i} in a for x{i} in a]"]))
        if draw(st.booleans()):
            # the same comprehension kinds over an iterable whose members the checker knows (a short literal display,
            # a string, range(n)): it then evaluates the body once per member
            it = draw(st.sampled_from(["(1, 2, 3)", "[a, b]", '"ab"', "range(3)", "(a,)", "[1, 2]"]))
            comp = draw(st.sampled_from([f"[1 for x{i} in {it}]", f"{{1 for x{i} in {it}}}", f"{{1: b for x{i} in {it}}}", f"{{b: 0 for x{i} in {it}}}",
                                         f"list(1 for x{i} in {it})", f"[z{i} for z{i} in {it} for x{i} in {it}]"]))
        body = ["return " + in_context(draw, comp)]
        how = draw(st.sampled_from(["return", "global", "local", "local-bare"]))
        if how == "global":
            body = [f"global G{i}", f"G{i} = " + in_context(draw, comp), "return b"]
        elif how == "local":
            body = [f"y{i} = " + in_context(draw, comp), f"return y{i}"]
        elif how == "local-bare":
            # the comprehension is the whole right-hand side of a single-target assignment
            body = [f"y{i} = {comp}", f"return (y{i}, b)"]
    elif kind == "unused-aug":
        body = [f"x{i} = 0", f"x{i} = a", "return b"]
    elif kind == "unused-line1":
        return kind, [f"def f{i}(a, b): x{i} = a; return b"]
    elif kind == "missing_f":
        body = ["return " + in_context(draw, draw(st.sampled_from(['"{a} and {b!r}"', '"{a:>5}" + "x"', "('{a}', '{b}')", '"{a}" "{b}"'])))]
    elif kind == "use_fstrings-percent":
        body = ["return " + in_context(draw, draw(st.sampled_from(['"%s-%s" % (a, b)', '"%s" % a', '"%d and %r" % (a, b)', '"%(k)s" % {"k": a}',
                                                                  '"x%sy" % (a + b,)', '"%5.2f" % a'])))]
    elif kind == "use_fstrings-format":
        body = ["return " + in_context(draw, draw(st.sampled_from(['"{} {}".format(a, b)', '"{0} {0}".format(a)', '"{x}".format(x=a)',
                                                                  '"{!r:>4}".format(a)'])))]
    elif kind == "too-many-positional":
        body = ["return " + in_context(draw, f"g{i}(a, b, 3)")]
        sig = draw(st.sampled_from(["p, q, r=0", "p, q, r", "p, q=1, r=2, s=3", "p, /, q, r"]))
        return kind, [f"def g{i}({sig}): return (p, q, r)", head] + ["    " + l for l in body]
    elif kind == "unused-ignore-trailing":
        body = ["return b  # static analysis: ignore[undefined_name]"]
    elif kind == "unused-ignore-own-line":
        body = ["# static analysis: ignore", "return b"]
    if wrap == "if":
        body = ["if a:"] + ["    " + l for l in body] + ["return a"]
    elif wrap == "for":
        body = ["for _z in b:"] + ["    " + l for l in body] + ["return a"]
    elif wrap == "try":
        body = ["try:"] + ["    " + l for l in body] + ["except Exception:", "    return a"]
    elif wrap == "with":
        body = ["with open(a) as _h:"] + ["    " + l for l in body]
    simple = all(not l.rstrip().endswith(":") and not l.lstrip().startswith(("#", "global")) and "#" not in l and not l.startswith(" ")
                 and l.strip() not in ("]", "a,", "b,") and not l.rstrip().endswith("[") for l in body)
    if wrap == "semicolons" and simple and len(body) > 1:
        body = ["; ".join(body)]
    elif wrap == "inline-if" and simple:
        body = ["if a: " + "; ".join(body), "return a"]
    elif wrap == "inline-def" and simple:
        return kind, [head + " " + "; ".join(body)]
    lines = [head] + ["    " + l for l in body]
    if decorated or (kind == "header-comp" and draw(st.booleans())):
        lines = ["@deco"] + lines
    if wrap == "class":
        lines = [f"class K{i}:"] + ["    " + l.replace(f"def f{i}(a, b)", f"def f{i}(self, a, b)") for l in lines]
    return kind, lines


@st.composite
def fixable_program(draw):
    n = draw(st.integers(1, 3))
    kinds, lines = [], []
    for i in range(n):
        k, ls = draw(fixable_function(i))
        kinds.append(k)
        lines += ls
    if any(l.strip() == "@deco" for l in lines):
        # applying the decorator twice is visible in the result
        lines = ["def deco(f):", "    def w(*p, **k):", "        r = f(*p, **k)", "        try:", "            send = r.send",
                 "        except AttributeError:", "            return ('w', r)", "        try:", "            send(None)",
                 "        except StopIteration as e:", "            return ('w', e.value)", "        return ('w', None)", "    return w"] + lines
    return kinds, "\n".join(lines) + "\n"


def free_names(node):
    return sorted({n.id for n in ast.walk(node) if isinstance(n, ast.Name) and isinstance(n.ctx, ast.Load)})


ENVS = [{"a": 1, "b": "s"}, {"a": 2.5, "b": [1]}, {"a": "x", "b": 0}, {"a": (1, 2), "b": None}, {"a": True, "b": b"b"}]


def eval_safe(node, env):
    try:
        return ("ok", eval(compile(ast.Expression(body=node), "<c16>", "eval"), {"__builtins__": {}}, dict(env)))
    except Exception as e:
        return ("exc", type(e).__name__)


def ast_edit(old_src, new_src):
    """Classify the edit between two sources: ('same',) | ('stmt-deleted', n) | ('expr-replaced', old, new) | ('other', text)."""
    old, new = ast.parse(old_src), ast.parse(new_src)
    if ast.dump(old) == ast.dump(new):
        return ("same",)

    def walk(a, b):
        if type(a) is not type(b):
            return [(a, b)]
        diffs = []
        for f in a._fields:
            x, y = getattr(a, f, None), getattr(b, f, None)
            if isinstance(x, list) and isinstance(y, list):
                if len(x) != len(y):
                    return [(a, b)]
                for p, q in zip(x, y):
                    if isinstance(p, ast.AST) and isinstance(q, ast.AST):
                        diffs += walk(p, q)
                    elif p != q:
                        return [(a, b)]
            elif isinstance(x, ast.AST) and isinstance(y, ast.AST):
                diffs += walk(x, y)
            elif x != y:
                return [(a, b)]
        return diffs
    diffs = walk(old, new)
    if len(diffs) == 1:
        a, b = diffs[0]
        if isinstance(a, ast.expr) and isinstance(b, ast.expr):
            return ("expr-replaced", a, b)
        # a block with one statement fewer
        for f in getattr(a, "_fields", ()):
            x, y = getattr(a, f, None), getattr(b, f, None)
            if isinstance(x, list) and isinstance(y, list) and len(x) == len(y) + 1 and all(isinstance(s, ast.stmt) for s in x):
                dx = [ast.dump(s) for s in x]
                dy = [ast.dump(s) for s in y]
                for k in range(len(dx)):
                    if dx[:k] + dx[k + 1:] == dy:
                        return ("stmt-deleted", x[k])
        return ("other", f"{type(a).__name__} -> {type(b).__name__}")
    return ("other", f"{len(diffs)} places differ")


def intended_edit(code, edit):
    """None if the tree edit is of the shape the fix for `code` is meant to make, else (kind, why)."""
    t = edit[0]
    if t == "other":
        return ("unintended-edit", f"the tree changed in an unexpected way ({edit[1]})")
    if code in ("unused_variable", "unused_assignment"):
        if t in ("same", "stmt-deleted"):
            if t == "stmt-deleted" and not isinstance(edit[1], (ast.Assign, ast.AugAssign, ast.AnnAssign)):
                return ("unintended-edit", f"a {type(edit[1]).__name__} statement was deleted")
            return None
        old_e, new_e = edit[1], edit[2]
        if isinstance(old_e, ast.Name) and isinstance(new_e, ast.Name) and new_e.id == "_" and isinstance(old_e.ctx, ast.Store):
            return None
        return ("collateral-edit", f"expected a target name replaced by `_` or a statement deleted; `{_unp(old_e)}` became `{_unp(new_e)}`")
    if code == "unused_ignore":
        return None if t == "same" else ("unintended-edit", "removing an unused ignore comment changed the syntax tree")
    if t != "expr-replaced":
        return ("unintended-edit", f"expected one expression to be replaced, got {t}")
    old_e, new_e = edit[1], edit[2]
    if code == "missing_f":
        if isinstance(old_e, ast.Constant) and isinstance(old_e.value, str) and isinstance(new_e, ast.JoinedStr):
            return None
    elif code == "use_fstrings":
        is_percent = isinstance(old_e, ast.BinOp) and isinstance(old_e.op, ast.Mod) and isinstance(old_e.left, ast.Constant)
        is_format = (isinstance(old_e, ast.Call) and isinstance(old_e.func, ast.Attribute) and old_e.func.attr == "format"
                     and isinstance(old_e.func.value, ast.Constant))
        if (is_percent or is_format) and isinstance(new_e, (ast.JoinedStr, ast.Constant)):
            return None
    elif code == "too_many_positional_args":
        if isinstance(old_e, ast.Call) and isinstance(new_e, ast.Call) and ast.dump(old_e.func) == ast.dump(new_e.func):
            old_vals = [ast.dump(x) for x in old_e.args] + [ast.dump(k.value) for k in old_e.keywords]
            new_vals = [ast.dump(x) for x in new_e.args] + [ast.dump(k.value) for k in new_e.keywords]
            if old_vals == new_vals:
                return None
    return ("collateral-edit", f"the replaced expression is not the diagnosed one: `{_unp(old_e)}` became `{_unp(new_e)}`")


def _unp(n):
    try:
        return ast.unparse(n)
    except Exception:
        return ast.dump(n)[:200]


EXEC_ENVS = ENVS + [{"a": [1, 2], "b": {"z": 1}}, {"a": "pq", "b": {}}, {"a": {"k": 1}, "b": [3]}]


def exec_diff(old_src, new_src):
    """Run every generated function of both texts on small argument sets; a description of the first
    difference in outcome (value or exception type), or None."""
    if "open(" in old_src:
        return None
    spaces = []
    for text in (old_src, new_src):
        ns = {"__name__": "pv_c16_exec"}
        try:
            exec(compile(text, "<c16>", "exec"), ns)
        except Exception as e:
            return f"executing the module raised {type(e).__name__}" if text is new_src else None
        spaces.append(ns)
    if spaces[0] is None:
        return None

    def entry(ns, name):
        m = re.fullmatch(r"f(\d+)", name)
        if name in ns:
            return ns[name]
        k = ns.get("K" + m.group(1))
        return getattr(k(), name) if k is not None and hasattr(k, name) else None
    for name in sorted(set(re.findall(r"def (f\d+)\(", old_src))):
        for env in EXEC_ENVS:
            outs = []
            for ns in spaces:
                fn = entry(ns, name)
                if fn is None:
                    outs.append(("missing",))
                    continue
                try:
                    v = fn(*[copy_arg(env["a"]), copy_arg(env["b"])])
                    if hasattr(v, "send") and hasattr(v, "cr_frame"):
                        # a coroutine (async def): drive it to its result
                        try:
                            v.send(None)
                        except StopIteration as e:
                            v = ("coroutine-result", e.value)
                    if hasattr(v, "__next__"):
                        v = list(v)
                    outs.append(("ok", repr(v)))
                except Exception as e:
                    outs.append(("exc", type(e).__name__))
            if outs[0] != outs[1]:
                return f"{name}({env['a']!r}, {env['b']!r}) gave {outs[0]} before the fix and {outs[1]} after"
    return None


def copy_arg(x):
    import copy as _c
    return _c.deepcopy(x)


def autofix_history(kinds, src, col=None):
    fails = []
    settings = dict(FIX_CODES)
    cur = src
    steps = 0
    seen = {src}
    limit = 8
    while steps < limit:
        try:
            res = sut.check_source(cur, checker=checker_for("fix"), apply_changes=True)
        except BaseException as e:
            if isinstance(e, (KeyboardInterrupt, SystemExit)):
                raise
            return None
        if res.raised is not None:
            return None
        new = res.new_code
        fixable = [d for d in res.diags if d.code in FIX_CODES and d.lineno is not None]
        if new is None or new == cur:
            break
        steps += 1
        proposer = next((d for d in res.diags if d.lineno is not None), None)
        code = proposer.code if proposer else "?"
        try:
            ast.parse(new)
        except SyntaxError as e:
            fails.append((f"autofix|does-not-parse|{code}", f"applying the fix for {diag_key(proposer)} gives text that does not parse ({e.msg}):\n{new}"))
            break
        edit = ast_edit(cur, new)
        bad = intended_edit(code, edit)
        if bad is not None:
            fails.append((f"autofix|{bad[0]}|{code}", f"fix for {diag_key(proposer)}: {bad[1]}\n--- before\n{cur}--- after\n{new}"))
            break
        if code == "use_fstrings" and edit[0] == "expr-replaced":
            old_e, new_e = edit[1], edit[2]
            for env in ENVS:
                a, b = eval_safe(old_e, env), eval_safe(new_e, env)
                if a != b and not (a[0] == "exc" and b[0] == "exc"):
                    fails.append((f"autofix|changes-value|{code}",
                                  f"`{ast.unparse(old_e)}` -> `{ast.unparse(new_e)}`: with {env} the old expression gives {a}, the new one {b}"))
                    break
            if fails:
                break
        if code in ("too_many_positional_args",) or (code == "unused_variable" and edit[0] == "expr-replaced"):
            d = exec_diff(cur, new)
            if d is not None:
                fails.append((f"autofix|changes-behaviour|{code}", f"fix for {diag_key(proposer)}: {d}\n--- before\n{cur}--- after\n{new}"))
                break
        try:
            res2 = sut.check_source(new, checker=checker_for("fix"))
        except BaseException as e:
            if isinstance(e, (KeyboardInterrupt, SystemExit)):
                raise
            fails.append((f"autofix|recheck-raises|{code}", f"re-checking the fixed text raised {e!r}"))
            break
        if res2.raised is None:
            # applying a fix must not introduce a diagnostic that was not there (a name that became undefined ...)
            before_all = collections.Counter((d.code, first_line(d.message)) for d in res.diags)
            after_all = collections.Counter((d.code, first_line(d.message)) for d in res2.diags)
            new_diags = [k for k in after_all if after_all[k] > before_all.get(k, 0) and k[0] not in FIX_CODES]
            if new_diags:
                fails.append((f"autofix|introduces-diagnostic|{code}->{new_diags[0][0]}",
                              f"after the fix for {diag_key(proposer)} the re-check reports a new {new_diags[0][0]}: {new_diags[0][1]}\n--- before\n{cur}--- after\n{new}"))
                break
        if proposer is not None and res2.raised is None:
            # compare as multisets: another diagnostic with the same text may move onto the same line
            sig = (proposer.code, first_line(proposer.message))
            before = sum(1 for d in res.diags if (d.code, first_line(d.message)) == sig)
            after = sum(1 for d in res2.diags if (d.code, first_line(d.message)) == sig)
            if after >= before and code in FIX_CODES:
                fails.append((f"autofix|proposer-still-reported|{code}", f"{diag_key(proposer)} is still reported after its fix was applied"))
                break
        if new in seen:
            fails.append((f"autofix|revisits-text|{code}", "the fix loop returned to an earlier text"))
            break
        seen.add(new)
        cur = new
    if col is not None:
        col.case(nontrivial_id=src if steps >= 1 else None, label=["route:autofix", f"steps:{min(steps, 4)}"] + [f"kind:{k}" for k in kinds],
                 sample=src if steps >= 2 else None)
    return fails


# ----------------------------------------------------------------- command line route

CLI_FLAGS = [x for c in FIX_CODES for x in ("-e", c)] + ["--maximum-positional-args", "2"]


def cli_autofix(kinds, src, col=None):
    """`python -m pyanalyze -A` rewrites the file: one pass must give the text the in-process step gives or
    another single intended edit (the entry points may order the offered fixes differently); `-A -r` (repeat until nothing changes) must leave a file
    that parses and in which no fixable diagnostic that offered a change is left."""
    import os as _os
    import shutil as _sh
    import tempfile as _tf

    fails = []
    res = sut.check_source(src, checker=checker_for("fix"), apply_changes=True)
    if res.raised is not None:
        return None
    expected = res.new_code if res.new_code is not None else src
    d = _tf.mkdtemp(prefix="pv_c16_cli_")
    try:
        path = _os.path.join(d, "pv_c16_case.py")
        open(path, "w").write(src)
        code, out, err = sut.run_cli(["-A", *CLI_FLAGS, path], cwd=d)
        got = open(path).read()
        if "Traceback (most recent call last)" in err and "Internal error" not in out + err:
            fails.append(("cli|traceback", f"`python -m pyanalyze -A` printed a traceback: {err[-300:]}"))
        if got != expected:
            # several fixes may be on offer and the two entry points need not pick the same one first: the
            # one-pass text must still be one intended edit for one of the fixable codes reported
            codes = sorted({d.code for d in res.diags if d.code in FIX_CODES})
            try:
                edit = ast_edit(src, got)
                ok = any(intended_edit(c, edit) is None for c in codes)
                why = "" if ok else "; ".join(f"{c}: {intended_edit(c, edit)[1][:120]}" for c in codes)
            except SyntaxError as e:
                same = [k for k, _ in (autofix_history(kinds, src) or []) if "does-not-parse" in k]
                fails.append((same[0] if same else "cli|one-pass|does-not-parse", f"`-A` leaves a file that does not parse ({e.msg}):\n{got}--- from\n{src}"))
                return fails
            if not ok:
                fails.append(("cli|one-pass-unintended-edit",
                              f"after `python -m pyanalyze -A` the file is\n{got}--- which is not one intended edit of\n{src}--- ({why})"))
        if col is not None:
            col.case(nontrivial_id=("cli", src) if got != src else None, label=["route:cli-autofix"] + [f"kind:{k}" for k in kinds])
        if not fails and got != src:
            open(path, "w").write(src)
            code, out, err = sut.run_cli(["-A", "-r", *CLI_FLAGS, path], cwd=d, timeout=240)
            final = open(path).read()
            try:
                ast.parse(final)
            except SyntaxError as e:
                # the same root cause seen through the in-process history keeps its key
                same = [k for k, _ in (autofix_history(kinds, src) or []) if "does-not-parse" in k]
                fails.append((same[0] if same else "cli|repeat|does-not-parse",
                              f"`-A -r` leaves a file that does not parse ({e.msg}):\n{final}--- from\n{src}"))
                return fails
            again = sut.check_source(final, checker=checker_for("fix"), apply_changes=True)
            if again.raised is None and again.new_code is not None and again.new_code != final:
                fails.append(("cli|repeat|not-a-fixpoint", f"`-A -r` stopped at a text for which a further fix is proposed:\n{final}--- from\n{src}"))
        return fails
    except subprocess.TimeoutExpired:
        return [("cli|repeat|does-not-terminate", f"`python -m pyanalyze -A -r` did not finish within 240 s on\n{src}")]
    finally:
        _sh.rmtree(d, ignore_errors=True)


# ----------------------------------------------------------------- shards


def shards(tier, seed):
    n = 16
    out = [{"mode": "autofix", "index": i, "examples": 300 if tier == "quick" else 6000} for i in range(8)]
    out += [{"mode": "add-ignores", "index": i, "examples": 60 if tier == "quick" else 2000} for i in range(8)]
    out += [{"mode": "cli", "index": i, "examples": 6 if tier == "quick" else 150} for i in range(4)]
    return out


def run_shard(spec):
    col = runner.Collector(spec)
    seed = runner.mix_seed(spec["seed"], ID, spec["name"])
    if spec["mode"] == "cli":
        def make_c():
            @given(fixable_program())
            def t(p):
                kinds, src = p
                fails = cli_autofix(kinds, src, col)
                if fails is None:
                    col.discarded += 1
                    return
                for key, what in fails:
                    col.fail(key, what, {"src": src, "kinds": kinds, "mode": "cli"}, raise_new=True)
            return t
        runner.drive(col, make_c, seed, spec["examples"], replay=replay)
        return col.result()
    if spec["mode"] == "autofix":
        def make():
            @given(fixable_program())
            def t(p):
                kinds, src = p
                fails = autofix_history(kinds, src, col)
                if fails is None:
                    col.discarded += 1
                    return
                for key, what in fails:
                    col.fail(key, what, {"src": src, "kinds": kinds, "mode": "autofix"}, raise_new=True)
            return t
        runner.drive(col, make, seed, spec["examples"], replay=replay)
        return col.result()

    def make_a():
        progs = st.one_of(corpus.program_strategy(2).map(lambda t: t[1]), fixable_program().map(lambda t: t[1]))

        @given(progs)
        def t(src):
            fails = add_ignore_history(src, col)
            if fails is None:
                col.discarded += 1
                return
            for key, what in fails:
                col.fail(key, what, {"src": src, "mode": "add-ignores"}, raise_new=True)
        return t
    runner.drive(col, make_a, seed, spec["examples"], replay=replay)
    return col.result()


def replay_all(case):
    if case.get("mode") == "cli":
        fails = cli_autofix(case.get("kinds", []), case["src"]) or []
    elif case.get("mode") == "autofix":
        fails = autofix_history(case.get("kinds", []), case["src"]) or []
    else:
        fails = add_ignore_history(case["src"]) or []
    return [{"key": k, "what": w, "case": case} for k, w in fails]


def replay(case):
    for f in replay_all(case):
        return f
    return None

"""C17 - format-string diagnostics agree with CPython's formatter."""

from __future__ import annotations

import ast
import re

from hypothesis import given, strategies as st

from pv import member, runner, sut

ID = "C17"
TECHNIQUE = "differential property-based testing against CPython's % and str.format on grammar-generated templates x literal arguments (Hypothesis), program level"
RULE = (
    "lines `r = <template literal> % <literal args>` and `r = <template>.format(<literal args>)`, 250 per module; "
    "%-templates from the conversion grammar (mapping keys incl. empty/nested parens, flags, width/*, "
    ".precision/.*/bare ., length modifiers, every conversion letter and invalid ones, %%, stray %) as str and "
    "bytes; str.format templates (auto/numbered/named fields, mixtures, attribute/index paths, !r !s !a and "
    "invalid conversions, nested specs, {{ }}, unbalanced braces). Oracle: CPython raises => a "
    "bad_format_string / incompatible_call diagnostic on the line; CPython succeeds => no diagnostic outside the "
    "explicit list of stricter lints; inferred type contains the actual result. Non-trivial = template with >=1 "
    "real conversion and an argument tuple of the right length, or one CPython rejects for a reason other than "
    "the argument count (distinct by line text)."
)
ASSUMPTIONS = [
    "stricter lints allowed when CPython succeeds: 'use of % on string with no conversion specifiers', "
    "'using % combined with optional specifiers', 'cannot combine specifiers that require a mapping with those "
    "that do not', 'Numbered/Named argument(s) ... were not used'",
]

ALLOWED_LINTS = [
    "use of % on string with no conversion specifiers",
    "using % combined with optional specifiers",
    "cannot combine specifiers that require a mapping with those that do not",
    "were not used",
]

CONVS = list("diouxXeEfFgGcrsa") + ["b", "%", "y", "z", "D"]
SCALARS = ["1", "True", "-5", "2**70", "1.5", "None", '"s"', '"x"', 'b"b"', 'b"bb"', "300", "65", "[1]", "(1, 2)", "1j", '""', "0", "256", "-1", "1114111", "1114112"]


@st.composite
def percent_spec(draw):
    conv = draw(st.sampled_from(CONVS))
    key = draw(st.sampled_from(["", "", "", "(a)", "(b)", "()", "(a b)", "(a(b)c)", "(0)"]))
    flags = "".join(draw(st.lists(st.sampled_from("#0- +"), max_size=2, unique=True)))
    width = draw(st.sampled_from(["", "", "5", "*", "0"]))
    prec = draw(st.sampled_from(["", "", ".2", ".", ".*", ".0"]))
    lm = draw(st.sampled_from(["", "", "", "h", "l", "L"]))
    return "%" + key + flags + width + prec + lm + conv


@st.composite
def percent_case(draw):
    is_bytes = draw(st.integers(0, 4)) == 0
    n = draw(st.integers(0, 3))
    pieces = []
    for _ in range(n):
        pieces.append(draw(st.sampled_from(["", "x", " ", "a=", "%%"])))
        pieces.append(draw(percent_spec()))
    pieces.append(draw(st.sampled_from(["", "", "!", "%", " %%"])))
    tmpl = "".join(pieces)
    shape = draw(st.sampled_from(["scalar", "tuple", "tuple", "tuple-fit", "tuple-fit", "dict"]))
    if shape == "scalar":
        args = draw(st.sampled_from(SCALARS))
    elif shape == "tuple":
        xs = draw(st.lists(st.sampled_from(SCALARS), max_size=4))
        args = "(" + ", ".join(xs) + ("," if len(xs) == 1 else "") + ")"
    elif shape == "tuple-fit":
        need = _needed(tmpl)
        xs = [draw(st.sampled_from(SCALARS)) for _ in range(need)]
        args = "(" + ", ".join(xs) + ("," if len(xs) == 1 else "") + ")"
    else:
        ks = draw(st.lists(st.sampled_from(['"a"', '"b"', '""', '"a b"', '"a(b)c"', "1", '"0"']), max_size=3, unique=True))
        args = "{" + ", ".join(f"{k}: {draw(st.sampled_from(SCALARS))}" for k in ks) + "}"
    lit = ("b" if is_bytes else "") + '"' + tmpl + '"'
    return f"{lit} % {args}", "%", is_bytes, tmpl


def _needed(tmpl):
    n = 0
    for m in re.finditer(r"%(\([^)]*\))?[#0\- +]*(\*|\d+)?(\.(\*|\d+)?)?[hlL]?(.)", tmpl):
        if m.group(5) == "%":
            continue
        n += 1 + (m.group(2) == "*") + (m.group(4) == "*")
    return n


FIELDS = ["{}", "{}", "{0}", "{1}", "{a}", "{b}", "{0.real}", "{0.foo}", "{a.x}", "{0[0]}", "{a[k]}", "{!r}", "{!s}", "{!a}",
          "{!z}", "{:d}", "{:>5}", "{:.2f}", "{0:{1}}", "{:{}}", "{{", "}}", "{", "}", "{0!r:>4}", "{:x}", "{a:d}", "{0:s}", "{:,}", "{ }", "{0 }", "{a!}"]


@st.composite
def format_case(draw):
    n = draw(st.integers(0, 3))
    tmpl = "".join(draw(st.sampled_from(["", "x ", "="])) + draw(st.sampled_from(FIELDS)) for _ in range(n)) + draw(st.sampled_from(["", "", "!"]))
    pos = draw(st.lists(st.sampled_from(SCALARS), max_size=3))
    kws = draw(st.lists(st.sampled_from(["a", "b", "c"]), max_size=2, unique=True))
    args = pos + [f"{k}={draw(st.sampled_from(SCALARS))}" for k in kws]
    return f'"{tmpl}".format({", ".join(args)})', "format", False, tmpl


def case_strategy():
    return st.one_of(percent_case(), percent_case(), format_case())


def cpython(expr):
    try:
        return True, eval(expr, {})
    except Exception as e:
        return False, e


def skeleton(msg):
    msg = re.sub(r"Literal\[[^\]]*\]", "Literal[_]", msg)
    msg = re.sub(r"'[^']*'", "'_'", msg)
    msg = re.sub(r"in %\S*", "in %_", msg)
    msg = re.sub(r"\d+", "N", msg)
    msg = re.sub(r"keys .*", "keys _", msg)
    msg = re.sub(r"argument\(?s?\)? [\w, ]+ (were|to)", r"argument _ \1", msg)
    return msg[:70]


def cpy_reason(kind, exc, expr):
    """Root-cause class of a CPython formatting error."""
    msg = str(exc)
    name = type(exc).__name__
    if kind == "format":
        if "cannot switch from" in msg:
            return "numbering-switch"
        if name == "AttributeError":
            return "attribute-path"
        if "not subscriptable" in msg or name in ("IndexError", "KeyError") and "[" in expr.split(".format(")[0]:
            return "index-path"
        if "format code" in msg or "format specifier" in msg or "unsupported format string" in msg or "Cannot specify" in msg \
                or "not allowed" in msg or "Invalid format" in msg or "Sign" in msg or "Alternate form" in msg \
                or "Precision" in msg or "Zero padding" in msg or "Format specifier missing precision" in msg:
            return "spec-vs-argument-type"
    if kind == "format" and ("indices must be" in msg):
        return "index-path"
    if kind == "%":
        args = expr.split(" % ", 1)[1] if " % " in expr else ""
        if args.startswith("{") and re.search(r"[{,] *(\d+|True|None) *:", args):
            return "dict-with-nonstr-keys"
        if name == "KeyError" and expr.startswith("b"):
            return "KeyError:bytes-template-str-keyed-dict"
        if name == "KeyError":
            if not re.match(r"^b?'\w+'$", msg):
                return "KeyError:odd-key"
            return "KeyError"
        if re.match(r"%[xXoc] format: an integer is required, not float", msg):
            return "integer-conversion-given-float"
    msg = re.sub(r"'[^']*'", "'_'", msg)
    msg = re.sub(r"\d+", "N", msg)
    msg = re.sub(r"not \w+$", "not _", msg)
    msg = re.sub(r"of type .*", "of type _", msg)
    return f"{name}:{msg[:50]}"


def fp_reason(kind, desc, tmpl, expr=""):
    if desc.startswith("too many arguments") and _needed(tmpl) == 0 and " % " in expr and not expr.split(" % ", 1)[1].startswith("("):
        return "too many arguments|mapping-argument-without-specifiers"
    if desc.startswith("No value specified for keys") and "key-odd" in conv_feature(kind, tmpl):
        return "No value specified|odd-mapping-key"
    return _fp_reason(kind, desc, tmpl)


def _fp_reason(kind, desc, tmpl):
    if "invalid conversion specifier" in desc:
        feats = conv_feature(kind, tmpl)
        if "bare-dot" in feats:
            return "invalid conversion specifier|bare-dot-precision"
        if "key-odd" in feats:
            return "invalid conversion specifier|odd-mapping-key"
        return "invalid conversion specifier|" + feats
    return skeleton(desc)


def conv_feature(kind, tmpl):
    if kind == "%":
        m = re.findall(r"%(\([^)]*\))?[#0\- +]*(\*|\d+)?(\.(\*|\d+)?)?[hlL]?(.)?", tmpl)
        feats = set()
        for key, w, p, pd, c in m:
            f = c or "EOS"
            if key:
                f += "+key" + ("-odd" if not re.match(r"^\(\w+\)$", key) else "")
            if p == ".":
                f += "+bare-dot"
            feats.add(f)
        return ",".join(sorted(feats))[:40]
    feats = set()
    for f in re.findall(r"\{[^{}]*\}?|\}", tmpl):
        f2 = re.sub(r"[a-z0-9]+", "n", f)
        feats.add(f2)
    return ",".join(sorted(feats))[:40]


def aug_form(expr, i):
    """`tmpl % args` as `t = tmpl; t %= args` on one line (None if expr is not a % expression)."""
    try:
        node = ast.parse(expr, mode="eval").body
    except SyntaxError:
        return None
    if not (isinstance(node, ast.BinOp) and isinstance(node.op, ast.Mod)):
        return None
    return f"r{i} = {ast.unparse(node.left)}; r{i} %= {ast.unparse(node.right)}"


def judge(cases, checker, col=None, aug=False):
    """aug=True: the augmented-assignment spelling of every %-format case (same oracle: `t %= a` raises iff `t % a` does)."""
    lines = ["def body():"]
    if aug:
        cases = [c for i, c in enumerate(cases) if c[1] == "%" and aug_form(c[0], i) is not None]
    for i, (expr, kind, is_bytes, tmpl) in enumerate(cases):
        lines.append(f"    {aug_form(expr, i)}" if aug else f"    r{i} = {expr}")
    src = "\n".join(lines) + "\n"
    res = sut.check_source(src, checker=checker, collect_values=True)
    if res.raised is not None:
        raise res.raised
    by = res.by_line()
    inferred = {}
    for n in ast.walk(res.tree):
        if isinstance(n, ast.Assign) and not aug:
            inferred[n.lineno] = res.values_of(n.value)
    fails = []
    for i, (expr, kind, is_bytes, tmpl) in enumerate(cases):
        line = i + 2
        ok, out = cpython(expr)
        if not ok and (isinstance(out, (OverflowError, MemoryError)) or "Too many decimal digits" in str(out)):
            if col is not None:
                col.discarded += 1  # resource-limit errors are outside the property's domain
            continue
        diags = [d for d in by.get(line, []) if d.code not in ("unused_variable", "unused_assignment")]
        fmt_diags = [d for d in diags if d.code in ("bad_format_string", "incompatible_call", "incompatible_argument", "unsupported_operation")]
        internal = [d for d in diags if d.code == "internal_error"]
        strict_only = bool(fmt_diags) and all(any(a in d.description for a in ALLOWED_LINTS) for d in fmt_diags)
        tag = "b" if is_bytes else "s"
        if col is not None:
            need_ok = kind == "%" and _needed(tmpl) > 0
            nontriv = (ok and need_ok) or (not ok and not re.search(r"not enough|not all arguments|out of range", str(out)))
            col.case(nontrivial_id=(expr, aug) if nontriv else None,
                     label=[f"kind:{kind}{'-bytes' if is_bytes else ''}{'-augassign' if aug else ''}", "cpython-ok" if ok else f"cpython-{type(out).__name__}",
                            "diagnosed" if fmt_diags else "clean"])
        if internal:
            m = re.search(r"File \"[^\"]*/pyanalyze/(\w+)\.py\", line \d+, in (\w+)\n[^\n]*\n(\w+):", internal[0].description[::-1][::-1])
            frames = re.findall(r"/pyanalyze/(\w+)\.py\", line \d+, in (\w+)", internal[0].description)
            where = ":".join(frames[-1]) if frames else "?"
            fails.append((f"internal-error|{kind}|{where}", f"`{expr}`: internal error at {where}", expr, kind, is_bytes, tmpl))
            continue
        if not ok and not fmt_diags:
            fails.append((f"missed|{kind}|{tag}|{cpy_reason(kind, out, expr)}",
                          f"`{expr}` raises {type(out).__name__}: {out} under CPython but no format diagnostic is reported", expr, kind, is_bytes, tmpl))
        elif ok and fmt_diags and not strict_only:
            d = next(d for d in fmt_diags if not any(a in d.description for a in ALLOWED_LINTS))
            fails.append((f"false-positive|{kind}|{tag}|{fp_reason(kind, d.description, tmpl, expr)}",
                          f"`{expr}` evaluates to {out!r} under CPython but pyanalyze reports: {d.description}", expr, kind, is_bytes, tmpl))
        if ok and not fmt_diags:
            vals = inferred.get(line, [])
            if vals:
                m = member.member(out, sut.union_of(vals))
                if m is False:
                    fails.append((f"result-type|{kind}|{tag}", f"`{expr}` evaluates to {out!r} but the inferred type is {sut.union_of(vals)}", expr, kind, is_bytes, tmpl))
    return fails


def shards(tier, seed):
    n = 16
    return [{"index": i, "modules": 14 if tier == "quick" else 500} for i in range(n)]


def run_shard(spec):
    col = runner.Collector(spec)
    seed = runner.mix_seed(spec["seed"], ID, spec["name"])
    checker = sut.new_checker()

    def make():
        @given(st.lists(case_strategy(), min_size=250, max_size=250))
        def t(cases):
            fails = [(f, False) for f in judge(cases, checker, col)] + [(f, True) for f in judge(cases[:80], checker, col, aug=True)]
            col.sample(cases[0][0])
            for (key, what, expr, kind, is_bytes, tmpl), is_aug in fails:
                case = {"expr": expr, "kind": kind, "bytes": is_bytes, "tmpl": tmpl}
                if is_aug:
                    case["aug"] = True
                    what = "[as `t = template; t %= args`] " + what
                if col.is_known(key) or key in col.seen_keys:
                    col.fail(key, what, case)
                    continue
                again = replay(case)
                if again is not None:
                    col.fail(again["key"], again["what"], again["case"])
                else:
                    col.unreproduced += 1
        return t

    runner.drive(col, make, seed, spec["modules"], shrink=False)
    return col.result()


def replay_all(case):
    fails = judge([(case["expr"], case["kind"], case["bytes"], case["tmpl"])], sut.new_checker(), aug=bool(case.get("aug")))
    return [{"key": k, "what": w, "case": case} for k, w, *_ in fails]


def replay(case):
    for f in replay_all(case):
        return f
    return None

"""C11 - suppression and enabling are a pure projection of the diagnostics."""

from __future__ import annotations

import ast
import io
import os
import re
import shutil
import tempfile
import tokenize
import warnings

from hypothesis import given, strategies as st

from pv import corpus, runner, sut
from pv.c10_child import normalise

warnings.filterwarnings("ignore")

ID = "C11"
TECHNIQUE = "metamorphic property-based testing: the diagnostics of a generated program under a disabled subset of codes / with one inserted ignore comment are compared with a set-algebra prediction computed from the baseline diagnostics"
RULE = (
    "programs = hand-shaped templates (diagnostics on line 1, on the last line, two codes on one line, inside a "
    "multi-line statement) and corpus snippets under AST mutation, each with >=2 baseline diagnostics. (1) for "
    "random subsets S of the codes present, disabled through settings (command line), a config file's top level "
    "and a [[overrides]] section for the module: D(P, disable S) == {d in D(P): code(d) not in S}. (2) for every "
    "line x {trailing comment, own-line comment above} x {bare, [a code on the target line], [some other code]} "
    "where tokenize confirms a comment and the AST is unchanged: D(P + comment) == D(P) shifted, minus exactly the "
    "diagnostics the README rule targets (whole file for a bare comment in the leading comment block), plus "
    "unused_ignore iff nothing was suppressed and bare_ignore iff bare (both codes enabled). Non-trivial = comment "
    "placement adjacent to a diagnostic, on line 1 / last line, or naming a non-matching code; subsets that remove "
    "some but not all codes of a line (distinct by program+variant)."
    ' A further mechanism checks three copies of a program in ONE command-line run with a per-module override for exactly one of them.'
)
ASSUMPTIONS = [
    "diagnostics are compared as sorted multisets of (code, line, col, message) with module names normalised",
    "unused_ignore and bare_ignore are enabled for the comment part (they are off by default)",
]

IGNORE = "# static analysis: ignore"
BASE_ON = {"unused_ignore": True, "bare_ignore": True}

TEMPLATES = [
    # operator mismatches and an overloaded call that no overload accepts, next to an ordinary wrong argument: the verdicts
    # of these constructs are computed from argument checks whose own code may be disabled
    'from typing import overload\ndef f(a: int) -> str:\n    return ""\n@overload\ndef ov(x: int) -> int: ...\n@overload\ndef ov(x: str) -> str: ...\n'
    'def ov(x):\n    return x\ndef g(xs: list, n: int):\n    f("x")\n    y = n + "a"\n    xs += 1\n    z = ov(1.5)\n    w = -"s"\n    return (y, z, w, undefined_zz)\n',
    'def f(): return undefined_a + 1\ndef g(p):\n    x = undefined_b; y = "%d" % "s"\n    return (x, y,\n            undefined_c)\ndef h(): return undefined_d\n',
    'import os\ndef f(a: int) -> str:\n    return a\ndef g():\n    f("x"); os.nope\n    return f(1,\n             2)\n',
    'def f():\n    "%s %s" % (1,)\n    return undefined_q\n\n\ndef g():\n    return [undefined_r\n            for _ in range(3)]\n',
    '# a leading comment\n# second leading comment\ndef f(): return undefined_a\nx = 1\ndef g():\n    return undefined_b.attr + "a" % 1\n',
]


# codes whose checks feed other diagnostics internally (caught errors decide operator / overload outcomes): they are
# disabled even in programs that show no diagnostic of that code - nothing may change then
ALWAYS_CODES = ["incompatible_argument", "incompatible_call", "unsupported_operation", "undefined_attribute", "incompatible_assignment"]


def first_line(m):
    ls = [l for l in m.split("\n") if l.strip()]
    return normalise(ls[0]) if ls else ""


def render(diags, drop_codes=()):
    return sorted((d.code or "", d.lineno or 0, d.col if d.col is not None else -1, first_line(d.message))
                  for d in diags if d.code not in drop_codes)


def check(src, settings=None, config_file=None, module_name=None):
    s = dict(BASE_ON)
    s.update(settings or {})
    mod = None
    try:
        if module_name:
            mod = sut.make_named_module(src, module_name)
        res = sut.check_source(src, settings=sut.settings_from(s), config_file=config_file, module=mod)
    finally:
        if mod is not None:
            sut.forget_module(mod)
    if res.raised is not None:
        raise res.raised
    return res.diags


def comment_ok(old_src, new_src, lineno, text):
    """The inserted text is a comment token on that line and the AST is unchanged."""
    try:
        if ast.dump(ast.parse(old_src)) != ast.dump(ast.parse(new_src)):
            return False
        toks = list(tokenize.generate_tokens(io.StringIO(new_src).readline))
    except (SyntaxError, tokenize.TokenError, IndentationError):
        return False
    return any(t.type == tokenize.COMMENT and t.start[0] == lineno and t.string.startswith(text) for t in toks)


def leading_block_len(lines):
    n = 0
    for l in lines:
        if l.startswith("#"):
            n += 1
        else:
            break
    return n


def predict(base, lines, form, L, variant, code):
    """base: baseline render of the original program; returns expected render of the edited one.
    L is the 1-based line of the original program the comment is attached to."""
    bare = variant == "bare"
    if form == "trailing":
        shifted = list(base)
        target, comment_line = L, L
        file_level = False
    else:
        shifted = [(c, ln + 1 if ln >= L else ln, col, m) for c, ln, col, m in base]
        target, comment_line = L + 1, L
        # the new line sits in the leading comment block iff every line before it is a comment
        file_level = bare and L - 1 <= leading_block_len(lines) and all(l.startswith("#") for l in lines[: L - 1])
    if file_level:
        return []
    targeted = [d for d in shifted if d[1] == target and (bare or d[0] == code)]
    # multiset removal
    out = list(shifted)
    for d in targeted:
        out.remove(d)
    col = None
    if not targeted:
        out.append(("unused_ignore", comment_line, None, None))
    if bare:
        out.append(("bare_ignore", comment_line, None, None))
    return sorted(out, key=lambda t: (t[0], t[1]))


def same(expected, got):
    """Compare ignoring col/message of the synthetic unused/bare entries."""
    norm = lambda r: sorted((c, ln, None if c in ("unused_ignore", "bare_ignore") else col,
                             None if c in ("unused_ignore", "bare_ignore") else m) for c, ln, col, m in r)
    return norm(expected) == norm(got)


def judge_comments(src, col=None, max_variants=None, picks=None):
    fails = []
    base_diags = check(src)
    base = render(base_diags)
    if len([d for d in base if d[0] not in ("unused_ignore", "bare_ignore")]) < 2:
        return None
    if render(check(src)) != base:
        return None  # the program itself is not deterministic (e.g. it prints the current time)
    lines = src.split("\n")
    if lines and lines[-1] == "":
        lines = lines[:-1]
    n = len(lines)
    codes_present = sorted({d[0] for d in base})
    diag_lines = {d[1] for d in base}
    variants = []
    for L in range(1, n + 1):
        here = sorted({d[0] for d in base if d[1] == L})
        for form in ("trailing", "own-line"):
            tl = L if form == "trailing" else L
            cand = [("bare", None)]
            if here:
                cand.append(("coded", here[0]))
                if len(here) > 1:
                    cand.append(("coded", here[1]))
            other = next((c for c in codes_present + ["undefined_name", "incompatible_call"] if c not in here), None)
            if other:
                cand.append(("other", other))
            # a code that no diagnostic of the file carries: the comment suppresses nothing wherever it stands
            absent = next((c for c in ("missing_await", "bad_super_call", "duplicate_dict_key", "not_callable") if c not in codes_present), None)
            if absent and (L in diag_lines or L <= 3 or L >= n - 1):
                cand.append(("absent", absent))
            for variant, code in cand:
                variants.append((form, L, variant, code))
    # an own-line comment appended after the last line targets nothing
    variants.append(("own-line", n + 1, "bare", None))
    variants.append(("own-line", n + 1, "other", codes_present[0] if codes_present else "undefined_name"))
    if picks is not None:
        variants = [v for v in variants if list(v) in picks or v in picks]
    elif max_variants and len(variants) > max_variants:
        # keep everything adjacent to diagnostics / first / last line, thin out the rest deterministically
        keep = [v for v in variants if v[1] in diag_lines or (v[1] + 1) in diag_lines or v[1] in (1, n, n + 1)]
        rest = [v for v in variants if v not in keep]
        step = max(1, len(rest) // max(1, max_variants - len(keep)))
        variants = keep[:max_variants] + rest[::step][: max(0, max_variants - len(keep))]
    for form, L, variant, code in variants:
        if form == "trailing" and (not lines[L - 1].strip() or lines[L - 1].lstrip().startswith("#")):
            continue  # a comment appended to a blank / comment line is an own-line comment
        text = IGNORE + (f"[{code}]" if code else "")
        new_lines = list(lines)
        if form == "trailing":
            new_lines[L - 1] = new_lines[L - 1] + "  " + text
            cl = L
        elif L == n + 1:
            new_lines.append(text)
            cl = L
        else:
            indent = re.match(r"\s*", lines[L - 1]).group(0)
            new_lines.insert(L - 1, indent + text)
            cl = L
        new_src = "\n".join(new_lines) + "\n"
        if not comment_ok(src, new_src, cl, IGNORE):
            continue
        try:
            got = render(check(new_src))
        except BaseException as e:
            if isinstance(e, (KeyboardInterrupt, SystemExit)):
                raise
            continue
        exp = predict(base, lines, form, L, variant, code)
        adjacent = L in diag_lines or (form == "own-line" and L in diag_lines) or L in (1, n)
        if col is not None:
            col.case(nontrivial_id=(src, form, L, variant, code) if (adjacent or variant == "other") else None,
                     label=[f"form:{form}", f"variant:{variant}", "line1" if L == 1 else "last" if L == n else "mid"])
        if not same(exp, got):
            pos = "line1" if L == 1 else ("last" if L == n else "after-last" if L == n + 1 else "mid")
            exp_n = [(c, ln) for c, ln, _, _ in exp]
            got_n = [(c, ln) for c, ln, _, _ in got]
            extra_suppressed = [d for d in exp_n if d not in got_n and d[0] not in ("unused_ignore", "bare_ignore")]
            not_suppressed = [d for d in got_n if d not in exp_n and d[0] not in ("unused_ignore", "bare_ignore")]
            meta = [d for d in set(exp_n) ^ set(got_n) if d[0] in ("unused_ignore", "bare_ignore")]
            if extra_suppressed:
                rel = "extra-suppressed"
                rel += "@other-line" if any(ln != (L if form == "trailing" else L + 1) for _, ln in extra_suppressed) else "@target"
            elif not_suppressed:
                rel = "not-suppressed"
            else:
                rel = "meta:" + ",".join(sorted({d[0] for d in meta}))
            in_leading = form == "own-line" and all(l.startswith("#") for l in lines[: L - 1])
            if in_leading and variant != "bare" and rel.startswith("extra-suppressed"):
                key = "comment|coded-ignore-in-leading-block-acts-file-wide"
            else:
                key = f"comment|{form}|{variant}|{rel}|{pos}"
            fails.append((key,
                          f"{form} `{text}` at line {L}: expected {exp_n}, got {got_n}", {"src": src, "pick": [form, L, variant, code]}))
    return fails


def toml_for(codes, module=None):
    if module is None:
        return "[tool.pyanalyze]\n" + "".join(f"{c} = false\n" for c in codes)
    return "[tool.pyanalyze]\n[[tool.pyanalyze.overrides]]\nmodule = \"%s\"\n" % module + "".join(f"{c} = false\n" for c in codes)


def judge_disable(src, subsets, col=None):
    fails = []
    base = render(check(src))
    real = [d for d in base if d[0] not in ("unused_ignore", "bare_ignore")]
    if len(real) < 2 or render(check(src)) != base:
        return None
    d = tempfile.mkdtemp(prefix="pv_c11_")
    try:
        for S in subsets:
            S = [c for c in S if c in {x[0] for x in base} or c in ALWAYS_CODES]
            if not S:
                continue
            expected = [x for x in base if x[0] not in S]
            for mech in ("settings", "config-top", "override", "settings-over-override"):
                try:
                    if mech == "settings-over-override":
                        # the command line / settings layer wins over a per-module override that sets the same
                        # codes the other way
                        path = os.path.join(d, "pyproject.toml")
                        open(path, "w").write(toml_for(S, "pvmod_c11").replace(" = false", " = true"))
                        got = render(check(src, settings={c: False for c in S}, config_file=__import__("pathlib").Path(path),
                                           module_name="pvmod_c11"))
                        expected_named = [x for x in render(check(src, module_name="pvmod_c11")) if x[0] not in S]
                        if got == expected_named:
                            got = expected
                    elif mech == "settings":
                        got = render(check(src, settings={c: False for c in S}))
                    elif mech == "config-top":
                        path = os.path.join(d, "pyproject.toml")
                        open(path, "w").write(toml_for(S))
                        got = render(check(src, config_file=__import__("pathlib").Path(path)))
                    else:
                        path = os.path.join(d, "pyproject.toml")
                        open(path, "w").write(toml_for(S, "pvmod_c11"))
                        got = render(check(src, config_file=__import__("pathlib").Path(path), module_name="pvmod_c11"))
                        # the module name appears in some messages: compare with a baseline under the same name
                        expected_named = [x for x in render(check(src, module_name="pvmod_c11")) if x[0] not in S]
                        if got == expected_named:
                            got = expected
                except BaseException as e:
                    if isinstance(e, (KeyboardInterrupt, SystemExit)):
                        raise
                    continue
                lines_with = {}
                for c, ln, _, _ in base:
                    lines_with.setdefault(ln, set()).add(c)
                partial = any(0 < len(cs & set(S)) < len(cs) for cs in lines_with.values())
                if col is not None:
                    col.case(nontrivial_id=(src, tuple(S), mech) if partial or len(S) < len({x[0] for x in base}) else None,
                             label=[f"mechanism:{mech}"])
                if got != expected:
                    removed_wrong = [x for x in expected if x not in got]
                    added = [x for x in got if x not in expected]
                    rel = "other-diagnostic-lost" if removed_wrong else ("not-disabled" if any(x[0] in S for x in added) else "other-diagnostic-added")
                    fails.append((f"disable|{mech}|{rel}|{(removed_wrong or added)[0][0]}",
                                  f"disabling {S} via {mech}: expected {[(c, l) for c, l, _, _ in expected]}, got {[(c, l) for c, l, _, _ in got]}",
                                  {"src": src, "disable": S, "mech": mech}))
        return fails
    finally:
        shutil.rmtree(d, ignore_errors=True)


def cli_failures(d, files, config=None):
    """Run `python -m pyanalyze` on several files in one run; -> sorted [(file, code, line, col, first line)] or None."""
    import json as _json

    out = os.path.join(d, "out.json")
    if os.path.exists(out):
        os.unlink(out)
    args = (["--config-file", config] if config else []) + ["--json-output", out] + list(files)
    code, so, se = sut.run_cli(args, cwd=d)
    if not os.path.exists(out):
        return [] if code == 0 else None
    rows = []
    for f in _json.load(open(out)):
        rows.append((os.path.basename(f.get("filename", "")), f.get("code") or "", f.get("lineno") or 0,
                     f.get("col_offset") if f.get("col_offset") is not None else -1, first_line(f.get("description", ""))))
    return sorted(rows)


def judge_disable_multi(src, S, col=None):
    """Several modules checked in ONE run, a per-module override disabling S for exactly one of them: the other
    module keeps all its diagnostics, whichever of the two is checked first."""
    fails = []
    d = tempfile.mkdtemp(prefix="pv_c11m_")
    try:
        names = ["pvm_a", "pvm_b", "pvm_c"]
        for n in names:
            open(os.path.join(d, n + ".py"), "w").write(src)
        files = [n + ".py" for n in names]
        open(os.path.join(d, "base.toml"), "w").write("[tool.pyanalyze]\n" + "".join(f"{c} = true\n" for c in BASE_ON))
        base = cli_failures(d, files, "base.toml")
        if not base or cli_failures(d, files, "base.toml") != base:
            return []
        S = [c for c in S if c in {r[1] for r in base}]
        if not S:
            return []
        for target in names:
            for polarity in ("disable", "enable-only-here"):
                if polarity == "disable":
                    text = "[tool.pyanalyze]\n" + "".join(f"{c} = true\n" for c in BASE_ON if c not in S) + "".join(f"{c} = true\n" for c in S) \
                        + f"[[tool.pyanalyze.overrides]]\nmodule = \"{target}\"\n" + "".join(f"{c} = false\n" for c in S)
                    expected = [r for r in base if not (r[0] == target + ".py" and r[1] in S)]
                else:
                    text = "[tool.pyanalyze]\n" + "".join(f"{c} = true\n" for c in BASE_ON if c not in S) + "".join(f"{c} = false\n" for c in S) \
                        + f"[[tool.pyanalyze.overrides]]\nmodule = \"{target}\"\n" + "".join(f"{c} = true\n" for c in S)
                    expected = [r for r in base if r[0] == target + ".py" or r[1] not in S]
                open(os.path.join(d, "cfg.toml"), "w").write(text)
                got = cli_failures(d, files, "cfg.toml")
                if col is not None:
                    col.case(nontrivial_id=(src, tuple(S), "multi", target, polarity), label=["mechanism:override-several-modules"])
                if got is None:
                    continue
                if got != expected:
                    lost = [x for x in expected if x not in got]
                    added = [x for x in got if x not in expected]
                    rel = "other-module-lost" if any(x[0] != target + ".py" for x in lost) else \
                        "other-module-kept" if any(x[0] != target + ".py" for x in added) else "target-module-wrong"
                    fails.append((f"disable|override-several-modules|{polarity}|{rel}",
                                  f"three copies of one module checked in one run, override for {target} ({polarity} {S}): expected "
                                  f"{[(f, c, l) for f, c, l, _, _ in expected]}, got {[(f, c, l) for f, c, l, _, _ in got]}",
                                  {"src": src, "disable": S, "mech": "multi"}))
                    return fails
        return fails
    finally:
        shutil.rmtree(d, ignore_errors=True)


# ----------------------------------------------------------------- shards


def shards(tier, seed):
    n = 16
    out = [{"mode": "templates"}] + [{"mode": "multi", "index": i} for i in range(min(3, len(TEMPLATES)))]
    out += [{"mode": "corpus", "index": i, "programs": 4 if tier == "quick" else 250, "variants": 40 if tier == "quick" else 400} for i in range(n - 1)]
    return out


def run_shard(spec):
    col = runner.Collector(spec)
    seed = runner.mix_seed(spec["seed"], ID, spec["name"])
    if spec["mode"] == "templates":
        for src in TEMPLATES:
            for key, what, case in judge_comments(src, col) or []:
                col.fail(key, what, case)
            codes = sorted({d.code for d in check(src)})
            subsets = [[c] for c in codes] + [codes[:2], codes[1:]] + [[c] for c in ALWAYS_CODES if c not in codes]
            for key, what, case in judge_disable(src, subsets, col) or []:
                col.fail(key, what, case)
        col.sample(TEMPLATES[0])
        return col.result()
    if spec["mode"] == "multi":
        src = TEMPLATES[spec["index"]]
        codes = sorted({d.code for d in check(src)} - {"unused_ignore", "bare_ignore"})
        for S in [[c] for c in codes[:1]] + ([codes[:2]] if len(codes) > 1 else []):
            for key, what, case in judge_disable_multi(src, S, col):
                col.fail(key, what, case)
        return col.result()

    def make():
        @given(corpus.program_strategy(2), st.data())
        def t(prog, data):
            origin, src, muts = prog
            try:
                fails = judge_comments(src, col, max_variants=spec["variants"])
            except BaseException as e:
                if isinstance(e, (KeyboardInterrupt, SystemExit)):
                    raise
                col.discarded += 1
                return
            if fails is None:
                col.discarded += 1
                return
            codes = sorted({d.code for d in check(src)})
            subsets = data.draw(st.lists(st.lists(st.sampled_from(codes), min_size=1, max_size=3, unique=True), min_size=1, max_size=3))
            subsets.append([data.draw(st.sampled_from(ALWAYS_CODES))])
            fails += judge_disable(src, subsets, col) or []
            col.sample({"origin": origin, "mutations": muts})
            for key, what, case in fails:
                col.fail(key, f"{origin}: {what}", case)
        return t

    runner.drive(col, make, seed, spec["programs"], shrink=False)
    return col.result()


MAX_ABSTAIN = 0.7


def replay_all(case):
    if "pick" in case:
        fails = judge_comments(case["src"], picks=[tuple(case["pick"])]) or []
    elif case.get("mech") == "multi":
        fails = judge_disable_multi(case["src"], list(case["disable"]))
    else:
        fails = judge_disable(case["src"], [case["disable"]]) or []
        fails = [f for f in fails if f[2].get("mech") == case.get("mech")]
    return [{"key": k, "what": w, "case": case} for k, w, _ in fails]


def replay(case):
    for f in replay_all(case):
        return f
    return None

"""C20 - type evaluation functions follow their specification."""

from __future__ import annotations

import ast
import itertools
import re
import sys
import warnings

from hypothesis import given, strategies as st

from pv import member, runner, sut, universe

warnings.filterwarnings("ignore")

ID = "C20"
TECHNIQUE = "property-based testing against a reference interpreter written from docs/type_evaluation.md (Hypothesis-generated evaluator bodies x call shapes), union arguments checked by distributing over members"
RULE = (
    "@evaluated functions with 1-2 parameters (defaults `...` or literals, keyword-only variants) whose bodies "
    "are generated from the restricted grammar: nested if/elif/else, sequences of ifs, and/or/not over "
    "is_of_type(p, T[, exclude_any=False]), p ==/!=/is/is not <literal>, is_provided / is_positional / is_keyword, "
    "sys.version_info / sys.platform comparisons; return <marker class>, show_error('<unique id>'), pass, "
    "fall-through to the return annotation. Calls pass positional / keyword / omitted arguments whose types are "
    "literals, classes, unions and Any. Oracle: reference interpreter (argument kinds from real binding; "
    "is_of_type by witness inclusion with 'Any matches only Any unless exclude_any=False'); for non-union "
    "arguments the returned type and the set of fired error ids equal the reference; for union arguments they "
    "equal the union over the members evaluated separately. Non-trivial = body with >=2 conditions of which the "
    "call makes one true and one false, or a union argument that splits (distinct by evaluator+call)."
    ' sys.version_info conditions use all six operators against tuples of length 1, 2, 3 and 5 around the running interpreter; sys.platform ==/!= against the real and another name.'
)
ASSUMPTIONS = [
    "`is_of_type(arg, T)` for a non-union, non-Any argument type A is decided as A <= T on witnesses (pv/member.py)",
    "arguments are generated compatible with the parameter annotations, so no ordinary argument error interferes",
]

PARAM_TYPES = ["int", "str", "int | str", "int | None", "object", "int | str | None"]
ARG_TYPES = {
    # caller parameter name -> declared type
    "p_int": "int", "p_str": "str", "p_none": "None", "p_l1": "Literal[1]", "p_la": 'Literal["a"]',
    "p_u": "int | str", "p_opt": "int | None", "p_any": "Any", "p_u3": "int | str | None", "p_true": "Literal[True]",
    # unions with an Any member (e.g. `unannotated if c else some_str`)
    "p_any_str": "Any | str", "p_any_none": "Any | None",
}
DECLARE = {"p_any_str": "Union[Any, str]", "p_any_none": "Union[Any, None]"}
TEST_TYPES = ["int", "str", "None", "bool", "Literal[1]", 'Literal["a"]', "int | str", "object", "int | None", "float"]
LITS = ["None", "1", '"a"', "True", "0"]
RS = ["R0", "R1", "R2", "R3"]


def ty(src):
    return member.from_rt(universe.eval_type(src))


_incl = {}


def included(x, y):
    k = (x, y)
    if k not in _incl:
        tx, ty_ = ty(x), ty(y)
        r = True
        for o in member.inhabitants(tx, 16):
            if member.mem(o, ty_) is False:
                r = False
                break
        _incl[k] = r
    return _incl[k]


def members_of(t):
    return [m.strip() for m in t.split(" | ")]


# ----------------------------------------------------------------- body grammar (JSON-able IR)
# cond: ("oftype", p, T, exclude_any) ("cmp", p, op, lit) ("kind", fn, p) ("sys", text) ("not", c) ("and", c, c) ("or", c, c)
# stmt: ("if", [(cond, block), ...], else_block|None) ("return", R) ("error", id) ("pass",)


def _sys_conds():
    """Version conditions around the running interpreter (tuples of length 1, 2, 3 and 5, one minor / micro step
    either way) under all six operators, and platform (in)equalities against the real and another name."""
    major, minor, micro = sys.version_info[:3]
    tuples = [(major,), (major + 1,), (2, 7), (major, minor), (major, minor - 1), (major, minor + 1), (major, minor, 0),
              (major, minor, micro), (major, minor, micro + 1), (major, minor + 1, 0), tuple(sys.version_info), (3, 8), (3, 0)]
    out = []
    for tup in tuples:
        for op in ("==", "!=", "<", "<=", ">", ">="):
            out.append(f"sys.version_info {op} {tup!r}")
    for name in (sys.platform, "nonexistent-os"):
        for op in ("==", "!="):
            out.append(f"sys.platform {op} {name!r}")
    return out


SYS_CONDS = _sys_conds()


def cond_strategy(params, depth=1):
    p = st.sampled_from(params)
    base = st.one_of(
        st.tuples(st.just("oftype"), p, st.sampled_from(TEST_TYPES), st.sampled_from([True, True, False])),
        st.tuples(st.just("cmp"), p, st.sampled_from(["==", "!=", "is", "is not"]), st.sampled_from(LITS)),
        st.tuples(st.just("kind"), st.sampled_from(["is_provided", "is_positional", "is_keyword"]), p),
        st.tuples(st.just("sys"), st.sampled_from(SYS_CONDS)),
    )
    if depth == 0:
        return base
    sub = cond_strategy(params, depth - 1)
    return st.one_of(base, base, st.tuples(st.just("not"), sub), st.tuples(st.just("and"), sub, sub), st.tuples(st.just("or"), sub, sub))


def block_strategy(params, depth, counter):
    def stmt(d):
        simple = st.one_of(
            st.sampled_from(RS).map(lambda r: ("return", r)),
            st.builds(lambda: ("error", f"e{next(counter)}")),
            st.just(("pass",)),
        )
        if d == 0:
            return simple
        blk = st.deferred(lambda: block(d - 1))
        branch = st.tuples(cond_strategy(params), blk)
        return st.one_of(simple, st.tuples(st.just("if"), st.lists(branch, min_size=1, max_size=2), st.one_of(st.none(), blk)))

    def block(d):
        return st.lists(stmt(d), min_size=1, max_size=3).map(trim)

    return block(depth)


def trim(b):
    out = []
    for s in b:
        out.append(s)
        if s[0] == "return":
            break
    return out


def render_cond(c):
    t = c[0]
    if t == "oftype":
        return f"is_of_type({c[1]}, {c[2]}" + ("" if c[3] else ", exclude_any=False") + ")"
    if t == "cmp":
        return f"{c[1]} {c[2]} {c[3]}"
    if t == "kind":
        return f"{c[1]}({c[2]})"
    if t == "sys":
        return c[1]
    if t == "not":
        return f"not ({render_cond(c[1])})"
    return f"({render_cond(c[1])}) {t} ({render_cond(c[2])})"


def render_block(b, indent, out):
    pad = "    " * indent
    for s in b:
        if s[0] == "return":
            out.append(f"{pad}return {s[1]}")
        elif s[0] == "error":
            out.append(f'{pad}show_error("{s[1]}")')
        elif s[0] == "pass":
            out.append(f"{pad}pass")
        else:
            for k, (c, blk) in enumerate(s[1]):
                out.append(f"{pad}{'if' if k == 0 else 'elif'} {render_cond(c)}:")
                render_block(blk, indent + 1, out)
            if s[2] is not None:
                out.append(f"{pad}else:")
                render_block(s[2], indent + 1, out)


def render_evaluator(name, ev):
    parts = []
    star = False
    for nm, kind, t, dflt in ev["params"]:
        if kind == "ko" and not star:
            parts.append("*")
            star = True
        parts.append(f"{nm}: {t}" + (f" = {dflt}" if dflt is not None else ""))
    ret = f" -> {ev['ret']}" if ev["ret"] else ""
    out = ["@evaluated", f"def {name}({', '.join(parts)}){ret}:"]
    render_block(ev["body"], 1, out)
    out.append(f"def {name}(*args: Any, **kwargs: Any) -> Any: ...")
    return out


# ----------------------------------------------------------------- reference interpreter


def eval_cond(c, env, kinds):
    t = c[0]
    if t == "oftype":
        a = env[c[1]]
        if a == "Any":
            return (not c[3]) or c[2] == "Any"
        return included(a, c[2])
    if t == "cmp":
        a = env[c[1]]
        lit_t = "None" if c[3] == "None" else f"Literal[{c[3]}]"
        r = False if a == "Any" else included(a, lit_t)
        return r if c[2] in ("==", "is") else not r
    if t == "kind":
        k = kinds[c[2]]
        return {"is_provided": k in ("POSITIONAL", "KEYWORD"), "is_positional": k == "POSITIONAL", "is_keyword": k == "KEYWORD"}[c[1]]
    if t == "sys":
        return bool(eval(c[1], {"sys": sys}))
    if t == "not":
        return not eval_cond(c[1], env, kinds)
    if t == "and":
        return eval_cond(c[1], env, kinds) and eval_cond(c[2], env, kinds)
    return eval_cond(c[1], env, kinds) or eval_cond(c[2], env, kinds)


def run_block(b, env, kinds, errors):
    """Returns the returned marker or None."""
    for s in b:
        if s[0] == "return":
            return s[1]
        if s[0] == "error":
            errors.add(s[1])
        elif s[0] == "if":
            taken = False
            for c, blk in s[1]:
                if eval_cond(c, env, kinds):
                    taken = True
                    r = run_block(blk, env, kinds, errors)
                    if r is not None:
                        return r
                    break
            if not taken and s[2] is not None:
                r = run_block(s[2], env, kinds, errors)
                if r is not None:
                    return r
    return None


def reference(ev, call):
    """call: {param: (kind, argtype)} for provided ones.  Returns (set of results, set of errors)."""
    env_base, kinds = {}, {}
    for nm, kind, t, dflt in ev["params"]:
        if nm in call:
            kinds[nm] = call[nm][0]
            env_base[nm] = call[nm][1]
        else:
            kinds[nm] = "DEFAULT"
            env_base[nm] = t if dflt == "..." else ("None" if dflt == "None" else f"Literal[{dflt}]")
    names = list(env_base)
    results, errors = set(), set()
    for combo in itertools.product(*[members_of(env_base[n]) for n in names]):
        env = dict(zip(names, combo))
        errs = set()
        r = run_block(ev["body"], env, kinds, errs)
        results.add(r if r is not None else (ev["ret"] or "Any"))
        errors |= errs
    return results, errors


def conds_of(b):
    for s in b:
        if s[0] == "if":
            for c, blk in s[1]:
                yield c
                yield from conds_of(blk)
            if s[2] is not None:
                yield from conds_of(s[2])


# ----------------------------------------------------------------- judging

HEADER = ("import sys\nfrom typing import *\nfrom typing_extensions import *\n"
          "from pyanalyze.extensions import evaluated, is_of_type, is_provided, is_positional, is_keyword, show_error\n"
          "from pv_vocab import *\n")


def judge(items, checker, col=None):
    """items: list of (evaluator, [call]) with call = {param: [kind, caller param name]}."""
    lines = HEADER.rstrip("\n").split("\n")
    for i, (ev, calls) in enumerate(items):
        lines += render_evaluator(f"ev{i}", ev)
    lines.append("def caller(" + ", ".join(f"{n}: {DECLARE.get(n, t)}" for n, t in ARG_TYPES.items()) + ", p_kwany: Dict[str, Any]) -> None:")
    lmap = {}
    for i, (ev, calls) in enumerate(items):
        for j, call in enumerate(calls):
            pos = [call[nm][1] for nm, kind, t, d in ev["params"] if nm in call and call[nm][0] == "POSITIONAL"]
            kws = [f"{nm}={call[nm][1]}" for nm, kind, t, d in ev["params"] if nm in call and call[nm][0] == "KEYWORD"]
            if "**" in call:
                kws.append("**p_kwany")  # a mapping of unknown size
            lines.append(f"    r{i}_{j} = ev{i}({', '.join(pos + kws)})")
            lmap[len(lines)] = (i, j)
    src = "\n".join(lines) + "\n"
    res = sut.check_source(src, checker=checker, collect_values=True)
    if res.raised is not None:
        raise res.raised
    fired, other = {}, {}
    # show_error() calls are observed at the funnel, before the visitor's duplicate filter
    # (one (node, code) pair is reported once; that filter is C11's subject)
    for lineno, code, msg in res.attempts:
        m = re.search(r": (e\d+)$", msg)
        if lineno in lmap and code == "incompatible_call" and m:
            fired.setdefault(lineno, set()).add(m.group(1))
    for d in res.diags:
        if d.lineno in lmap:
            m = re.search(r": (e\d+)$", d.description)
            if d.code == "incompatible_call" and m:
                fired.setdefault(d.lineno, set()).add(m.group(1))
            elif d.code not in ("unused_variable", "unused_assignment"):
                other.setdefault(d.lineno, []).append(f"{d.code}: {d.description[:100]}")
        elif d.code == "internal_error":
            raise RuntimeError("internal error: " + d.description[-300:])
    inferred = {}
    for n in ast.walk(res.tree):
        if isinstance(n, ast.Assign) and n.lineno in lmap:
            inferred[n.lineno] = res.values_of(n.value)
    from pyanalyze import value as V

    fails = []
    for line, (i, j) in lmap.items():
        ev, calls = items[i]
        call = calls[j]
        if line in other:
            if col is not None:
                col.discarded += 1
            continue
        typed_call = {nm: (k, ARG_TYPES[a]) for nm, (k, a) in call.items() if nm != "**"}
        unknown_valued = set()
        if "**" in call:
            # docs/type_evaluation.md: a parameter that can be filled from **kwargs of unknown size is KEYWORD if
            # it has no default and UNKNOWN (none of the three predicates holds) if it has one
            for nm, kind, t, dflt in ev["params"]:
                if nm not in typed_call:
                    typed_call[nm] = ("KEYWORD", "Any") if dflt is None else ("UNKNOWN", "Any")
                    if dflt is not None:
                        unknown_valued.add(nm)
        # an Any (member of the) argument narrowed by is_of_type(..., exclude_any=False) becomes the
        # tested type; the specification does not say how *later* conditions on the same parameter see
        # it, so such an evaluator is only used when that condition is the parameter's only one
        any_params = {nm for nm, (k, t) in typed_call.items() if "Any" in members_of(t)}
        all_conds = list(flatten_conds(list(conds_of(ev["body"]))))
        ambiguous = False
        for pn in any_params:
            mine = [c for c in all_conds if len(c) > 1 and c[1] == pn or (c[0] == "kind" and c[2] == pn)]
            if any(c[0] == "oftype" and not c[3] for c in mine) and len(mine) > 1:
                ambiguous = True
        for pn in unknown_valued:
            # the value such a parameter has inside the evaluator (default or mapping value) is not specified:
            # only evaluators that ask for its kind, not its value, are decided
            if any(c[0] in ("oftype", "cmp") and c[1] == pn for c in all_conds):
                ambiguous = True
        if ambiguous:
            if col is not None:
                col.skipped += 1
            continue
        exp_results, exp_errors = reference(ev, typed_call)
        got_errors = fired.get(line, set())
        vals = inferred.get(line) or []
        got_results = set()
        odd = None
        for m in V.flatten_values(sut.union_of(vals), unwrap_annotated=True) if vals else []:
            if isinstance(m, V.AnyValue):
                got_results.add("Any")
            elif isinstance(m, V.TypedValue) and getattr(m.typ, "__name__", None) in RS:
                got_results.add(m.typ.__name__)
            else:
                odd = str(m)
        is_union = any(len(members_of(t)) > 1 for _, t in typed_call.values())
        conds = list(conds_of(ev["body"]))
        desc = "\n".join(render_evaluator("ev", ev)[:-1]) + f"\ncall: {{{', '.join(f'{k}: {v[0]} {v[1]}' for k, v in typed_call.items())}}}"
        if col is not None:
            nontriv = len(conds) >= 2 and (len(exp_results) > 1 or is_union or len(exp_errors) > 0)
            col.case(nontrivial_id=desc if nontriv else None,
                     label=["union-arg" if is_union else "plain-arg", f"results:{len(exp_results)}"], sample=desc)
        if odd is not None:
            continue
        case = {"ev": ev, "call": call}
        prim = "+".join(sorted({c[0] if c[0] != "kind" else c[1] for c in flatten_conds(conds)}))[:50]
        tag = "union" if is_union else "plain"
        if got_results != exp_results:
            kind = "missing" if exp_results - got_results else "extra"
            fails.append((f"branch|{tag}-{kind}|{prim}", f"{desc}\nreference returns {sorted(exp_results)}, pyanalyze infers {sorted(got_results)}", case))
        elif got_errors != exp_errors:
            kind = "missing" if exp_errors - got_errors else "extra"
            fails.append((f"error-set|{tag}-{kind}|{prim}", f"{desc}\nreference fires {sorted(exp_errors)}, pyanalyze fires {sorted(got_errors)}", case))
    return fails


def flatten_conds(conds):
    for c in conds:
        if c[0] in ("not",):
            yield from flatten_conds([c[1]])
        elif c[0] in ("and", "or"):
            yield from flatten_conds([c[1], c[2]])
        else:
            yield c


# ----------------------------------------------------------------- generators


@st.composite
def evaluator_strategy(draw):
    import itertools as it

    n = draw(st.integers(1, 2))
    params = []
    for k, nm in enumerate(["x", "y"][:n]):
        t = draw(st.sampled_from(PARAM_TYPES))
        kind = "ko" if (k == 1 and draw(st.integers(0, 3)) == 0) else "pk"
        dflt = None
        if k == 1 or draw(st.integers(0, 3)) == 0:
            lits = [l for l in LITS if included("None" if l == "None" else f"Literal[{l}]", t)]
            dflt = draw(st.sampled_from(["..."] + lits)) if draw(st.booleans()) or k == 1 else None
        params.append((nm, kind, t, dflt))
    if params[0][3] is not None and n == 2 and params[1][3] is None and params[1][1] == "pk":
        params[1] = (params[1][0], "pk", params[1][2], "...")
    counter = it.count()
    body = draw(block_strategy([p[0] for p in params], 2, counter))
    ret = draw(st.sampled_from([None, "R3", "R2"]))
    return {"params": params, "body": body, "ret": ret}


@st.composite
def call_strategy(draw, ev):
    call = {}
    keyword_mode = False
    for nm, kind, t, dflt in ev["params"]:
        if dflt is not None and draw(st.integers(0, 2)) == 0:
            keyword_mode = True
            continue
        ok = [a for a, at in ARG_TYPES.items() if all(m == "Any" or included(m, t) for m in members_of(at))]
        a = draw(st.sampled_from(ok))
        if kind == "ko" or keyword_mode or draw(st.integers(0, 3)) == 0:
            call[nm] = ["KEYWORD", a]
            keyword_mode = True
        else:
            call[nm] = ["POSITIONAL", a]
    omitted = [p for p in ev["params"] if p[0] not in call]
    if omitted and draw(st.booleans()):
        # (with nothing left to fill, pyanalyze reports "**kwargs provided but not used")
        call["**"] = ["DSTAR", "p_kwany"]
    return call


@st.composite
def item_strategy(draw):
    ev = draw(evaluator_strategy())
    calls = [draw(call_strategy(ev)) for _ in range(6)]
    return ev, calls


def exhaustive_items():
    """One-parameter evaluators whose body is two consecutive `if` statements over type tests of the
    parameter (with / without else, returning / erroring / falling through) and an optional final return,
    called with union and plain arguments."""
    import itertools as it

    conds = [("oftype", "x", t, True) for t in ("int", "str", "None", "int | str")] + [("cmp", "x", "is", "None")]
    first = [lambda c: ("if", [(c, [("return", "R0")])], None),
             lambda c: ("if", [(c, [("return", "R0")])], [("return", "R1")]),
             lambda c: ("if", [(c, [("error", "e0")])], None),
             lambda c: ("if", [(c, [("pass",)])], [("return", "R1")])]
    second = [lambda c: ("if", [(c, [("return", "R1")])], [("return", "R2")]),
              lambda c: ("if", [(c, [("return", "R1")])], None),
              lambda c: ("if", [(c, [("error", "e1")])], [("return", "R2")]),
              lambda c: ("if", [(c, [("return", "R2")]), (("oftype", "x", "str", True), [("return", "R1")])], [("error", "e2")])]
    calls = [{"x": ["POSITIONAL", a]} for a in ("p_u3", "p_u", "p_opt", "p_int", "p_none", "p_any_str")]
    for f1, f2, c1, c2, tail in it.product(first, second, conds, conds, (None, "R3")):
        body = trim([f1(c1), f2(c2)] + ([("return", tail)] if tail else []))
        if f1(c1)[2] is not None and all(b and b[-1][0] == "return" for b in [f1(c1)[1][0][1], f1(c1)[2]]):
            continue  # everything after an if/else whose branches all return is dead
        yield {"params": [("x", "pk", "int | str | None", None)], "body": body, "ret": "R3" if tail is None else None}, calls


def shards(tier, seed):
    n = 16
    return [{"index": i, "modules": 60 if tier == "quick" else 800} for i in range(n)] + [{"mode": "exhaustive", "index": i, "of": 4} for i in range(4)]


def run_shard(spec):
    col = runner.Collector(spec)
    seed = runner.mix_seed(spec["seed"], ID, spec["name"])
    checker = sut.new_checker()
    if spec.get("mode") == "exhaustive":
        batch = []
        for k, item in enumerate(exhaustive_items()):
            if k % spec["of"] != spec["index"]:
                continue
            batch.append(item)
            if len(batch) == 25:
                for key, what, case in judge(batch, checker, col):
                    col.fail(key, what, case)
                batch = []
        if batch:
            for key, what, case in judge(batch, checker, col):
                col.fail(key, what, case)
        col.extra["exhaustive_bounds"] = ["one-parameter evaluators with two consecutive if statements over 5 type tests x 4 x 4 branch layouts x optional final return, 6 argument types"]
        return col.result()

    def make():
        @given(st.lists(item_strategy(), min_size=25, max_size=25))
        def t(items):
            for key, what, case in judge(items, checker, col):
                if col.is_known(key) or key in col.seen_keys:
                    col.fail(key, what, case)
                    continue
                again = replay(case)
                if again is not None:
                    col.fail(again["key"], again["what"], again["case"])
                else:
                    col.unreproduced += 1
        return t

    runner.drive(col, make, seed, spec["modules"], shrink=False)
    return col.result()


def _ir(x):
    """JSON round trip: lists back to tuples for statements / conditions."""
    if isinstance(x, list):
        if x and isinstance(x[0], str) and x[0] in ("if", "return", "error", "pass", "oftype", "cmp", "kind", "sys", "not", "and", "or"):
            if x[0] == "if":
                return ("if", [(_ir(c), [_ir(s) for s in blk]) for c, blk in x[1]], None if x[2] is None else [_ir(s) for s in x[2]])
            return tuple(_ir(y) for y in x)
        return [_ir(y) for y in x]
    return x


def replay_all(case):
    ev = dict(case["ev"])
    ev["params"] = [tuple(p) for p in ev["params"]]
    ev["body"] = [_ir(s) for s in ev["body"]]
    fails = judge([(ev, [case["call"]])], sut.new_checker())
    return [{"key": k, "what": w, "case": case} for k, w, _ in fails]


def replay(case):
    for f in replay_all(case):
        return f
    return None

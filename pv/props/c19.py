"""C19 - operations on known objects agree with performing them."""

from __future__ import annotations

import ast
import itertools

from hypothesis import given, strategies as st

from pv import member, runner, sut
from pv.universe import NS

ID = "C19"
TECHNIQUE = "differential testing against CPython evaluation: bounded exhaustive operator x operand-class enumeration plus Hypothesis sampling, program level"
RULE = (
    "one expression per line over literal immutable operands (ints incl. bool and big, floats, complex, str, bytes, "
    "tuples, None, modules os/math, classes, enum members): all binary operators + - * / // % ** << >> & | ^ @ "
    "(str/bytes % x excluded: C17), unary - + ~, attribute access with names from dir(obj) and non-existing ones, "
    "subscripts with literal indices and slices. Oracle: CPython raises TypeError/AttributeError (IndexError for a "
    "literal tuple index) <=> the line carries undefined_attribute / unsupported_operation / incompatible_call / "
    "incompatible_argument; an inferred literal equals the result in value and type, otherwise the result is a "
    "member of the inferred type. Operations raising anything else are outside the domain and counted. "
    "Non-trivial = operands of different classes or a literal result (distinct by expression)."
)
ASSUMPTIONS = [
    "exponents, shift counts and repeat counts are bounded by 64 so neither side performs huge computations",
    "ordering comparisons and lint-only codes are excluded as the property says",
]

OPERANDS = [
    "0", "1", "-1", "2", "255", "True", "False", "1180591620717411303424", "0.0", "1.5", "-2.5", "1j",
    '""', '"a"', '"ab"', 'b""', 'b"a"', "()", "(1,)", '(1, "a")', "(1, 2, 3)", "None", "os", "math", "int", "str", "A",
    "E.a", "IE.p", "3", "64", "(None,)", '"%s"',
]
BINOPS = ["+", "-", "*", "/", "//", "%", "**", "<<", ">>", "&", "|", "^", "@"]
UNOPS = ["-", "+", "~"]
# names in the default `ignored_end_of_reference` option ("count", "called", ...) are documented
# as never reported and therefore never generated
IGNORED_NAMES = {"call_count", "assert_has_calls", "reset_mock", "called", "assert_called_once",
                 "assert_called_once_with", "assert_called_with", "count", "assert_any_call", "assert_not_called"}
ATTRS = ["real", "imag", "upper", "name", "value", "nope", "x", "__len__", "strip", "sep", "pi", "bit_length",
         "conjugate", "__doc__", "a", "p", "numerator", "is_integer", "hex", "join", "decode", "index", "path"]
INDICES = ["0", "1", "-1", "5", "-5", '"a"', "None", "0:2", "::2", "1:", "True", "1.5", "(0,)", "2"]
DIAG_CODES = {"undefined_attribute", "unsupported_operation", "incompatible_call", "incompatible_argument"}


def cls_of(src):
    return type(eval(src, NS)).__name__


def too_big(op, l, r):
    lv, rv = eval(l, NS), eval(r, NS)
    num = (int, float)
    if op in ("**", "<<"):
        if isinstance(rv, num) and not isinstance(rv, complex) and abs(rv) > 64:
            return True
        if op == "**" and isinstance(lv, num) and abs(lv) > 10**6 and isinstance(rv, num) and abs(rv) > 8:
            return True
    if op == "*":
        for a, b in ((lv, rv), (rv, lv)):
            if isinstance(a, (str, bytes, tuple)) and isinstance(b, int) and abs(b) > 64:
                return True
    return False


def all_binops():
    for op in BINOPS:
        for l, r in itertools.product(OPERANDS, repeat=2):
            if op == "%" and cls_of(l) in ("str", "bytes"):
                continue
            if too_big(op, l, r):
                continue
            yield f"({l}) {op} ({r})", "binop:" + op, (cls_of(l), cls_of(r))


def all_unops():
    for op in UNOPS:
        for o in OPERANDS:
            yield f"{op}({o})", "unop:" + op, (cls_of(o),)


def all_attrs():
    for o in OPERANDS:
        obj = eval(o, NS)
        names = set(ATTRS)
        pub = sorted(n for n in dir(obj) if not n.startswith("_") and n not in IGNORED_NAMES)
        names |= set(pub[:: max(1, len(pub) // 6)])
        for n in sorted(names):
            yield f"({o}).{n}", "attr", (cls_of(o),)
    # the names of the `ignored_end_of_reference` option are only exempt where the attribute set is not fully
    # known: on a class object whose attributes are all known (builtin, enum and dataclass classes) they are
    # reported like any other missing name
    for o in ("int", "str", "float", "bytes", "tuple", "E", "IE", "D"):
        for n in ("count", "called", "reset_mock", "call_count", "nope"):
            yield f"({o}).{n}", "attr", (cls_of(o),)


def all_subscripts():
    for o in OPERANDS:
        for i in INDICES:
            yield f"({o})[{i}]", "subscript", (cls_of(o), "slice" if ":" in i else cls_of(i))


def all_cases():
    return list(all_binops()) + list(all_unops()) + list(all_attrs()) + list(all_subscripts())


def guarded_eval(expr):
    try:
        return True, eval(expr, dict(NS))
    except Exception as e:
        return False, e


def judge(cases, checker, col=None):
    lines = ["import os, math", "from pv_vocab import *", "def body():"]
    for i, (expr, kind, classes) in enumerate(cases):
        lines.append(f"    r{i} = {expr}")
    res = sut.check_source("\n".join(lines) + "\n", checker=checker, collect_values=True)
    if res.raised is not None:
        raise res.raised
    by = res.by_line()
    inferred = {}
    for n in ast.walk(res.tree):
        if isinstance(n, ast.Assign):
            inferred[n.lineno] = res.values_of(n.value)
    from pyanalyze import value as V

    fails = []
    for i, (expr, kind, classes) in enumerate(cases):
        line = i + 4
        ok, out = guarded_eval(expr)
        diags = [d for d in by.get(line, []) if d.code in DIAG_CODES]
        internal = [d for d in by.get(line, []) if d.code == "internal_error"]
        if internal:
            fails.append((f"internal-error|{kind}|{'/'.join(classes)}", f"`{expr}`: internal error: {internal[0].description[-200:]}", expr, kind, classes))
            continue
        if ok:
            expected_diag = False
        elif isinstance(out, (TypeError, AttributeError)):
            expected_diag = True
        elif isinstance(out, IndexError) and kind == "subscript" and classes[0] == "tuple":
            expected_diag = True
        else:
            if col is not None:
                col.extra["outside_domain"] = col.extra.get("outside_domain", 0) + 1
                col.classes[f"outside:{type(out).__name__}"] += 1
            continue
        diag = bool(diags)
        vals = inferred.get(line, [])
        lit = None
        if ok and vals:
            u = sut.union_of(vals)
            if isinstance(u, V.AnnotatedValue):
                u = u.value
            if isinstance(u, V.KnownValue):
                lit = u
        if col is not None:
            nontriv = len(set(classes)) > 1 or lit is not None
            col.case(nontrivial_id=expr if nontriv else None,
                     label=[kind.split(":")[0], "agree-ok" if (not diag and not expected_diag) else
                            "agree-error" if (diag and expected_diag) else ("FP" if diag else "FN"),
                            "literal-result" if lit is not None else "typed-result"])
        if diag != expected_diag:
            if diag:
                fails.append((f"FP|{kind}|{'/'.join(classes)}",
                              f"`{expr}` evaluates to {out!r} but pyanalyze reports {diags[0].code}: {diags[0].description}", expr, kind, classes))
            else:
                fails.append((f"FN|{kind}|{'/'.join(classes)}|{type(out).__name__}",
                              f"`{expr}` raises {type(out).__name__}: {out} but nothing is reported (inferred {[str(v) for v in vals]})", expr, kind, classes))
            continue
        if ok and vals:
            if lit is not None:
                if not member.lit_eq(out, lit.val) and not _same_object(out, lit.val):
                    fails.append((f"wrong-literal|{kind}|{'/'.join(classes)}",
                                  f"`{expr}` evaluates to {out!r} ({type(out).__name__}) but the inferred literal is {lit}", expr, kind, classes))
            else:
                m = member.member(out, sut.union_of(vals))
                if m is False:
                    fails.append((f"result-escapes|{kind}|{'/'.join(classes)}",
                                  f"`{expr}` evaluates to {out!r} which is not in the inferred type {sut.union_of(vals)}", expr, kind, classes))
    return fails


def _same_object(a, b):
    """Equality for results that have no literal form (bound methods, union objects, ...)."""
    if type(a) is not type(b) or isinstance(a, (int, float, complex, str, bytes, tuple, type(None))):
        return False
    if hasattr(a, "__self__") and hasattr(b, "__self__") and hasattr(a, "__name__"):
        return a.__name__ == getattr(b, "__name__", None) and (
            a.__self__ is b.__self__ or member.lit_eq(a.__self__, b.__self__))
    try:
        return bool(a == b)
    except Exception:
        return False


def shards(tier, seed):
    n = 16
    out = [{"mode": "exhaustive", "index": i, "of": n} for i in range(n)]
    if tier == "thorough":
        out += [{"mode": "nested", "index": i, "modules": 200} for i in range(n)]
    else:
        out += [{"mode": "nested", "index": i, "modules": 25} for i in range(n)]
    return out


def _report(col, fails):
    for key, what, expr, kind, classes in fails:
        col.fail(key, what, {"expr": expr, "kind": kind, "classes": list(classes)})


def run_shard(spec):
    col = runner.Collector(spec)
    checker = sut.new_checker()
    if spec["mode"] == "exhaustive":
        cases = all_cases()
        mine = cases[spec["index"]::spec["of"]]
        for k in range(0, len(mine), 300):
            _report(col, judge(mine[k:k + 300], checker, col))
            if col.out_of_time():
                break
        col.extra["exhaustive"] = not col.budget_hit
        col.extra["exhaustive_bounds"] = [f"{len(OPERANDS)} operands x {len(BINOPS)} binary / {len(UNOPS)} unary operators, attribute names, {len(INDICES)} indices"]
        col.sample(mine[len(mine) // 3][0])
        col.sample(mine[2 * len(mine) // 3][0])
        return col.result()

    # nested expressions: operands are themselves results of operations
    seed = runner.mix_seed(spec["seed"], ID, spec["name"])
    small = ["0", "1", "2", "True", "1.5", '"a"', '"ab"', "(1,)", "(1, 2, 3)", "None", 'b"a"', "E.a", "IE.p", "3"]

    @st.composite
    def nested(draw):
        l = draw(st.sampled_from(small))
        for _ in range(draw(st.integers(1, 3))):
            form = draw(st.integers(0, 3))
            if form == 0:
                op = draw(st.sampled_from(["+", "-", "*", "//", "%", "&", "|", "^", ">>"]))
                r = draw(st.sampled_from(small))
                try:
                    if cls_of(l) in ("str", "bytes") and op == "%":
                        op = "+"
                except Exception:
                    pass
                l = f"({l}) {op} ({r})"
            elif form == 1:
                l = f"{draw(st.sampled_from(UNOPS))}({l})"
            elif form == 2:
                l = f"({l})[{draw(st.sampled_from(INDICES))}]"
            else:
                l = f"({l}).{draw(st.sampled_from(ATTRS))}"
        return l, "nested", ("nested",)

    def make():
        @given(st.lists(nested(), min_size=200, max_size=200))
        def t(cases):
            # a nested expression with an erroring sub-expression is diagnosed at the inner node
            # (same line); an exception in the inner part aborts CPython evaluation as well
            for key, what, expr, kind, classes in judge(cases, checker, col):
                case = {"expr": expr, "kind": kind, "classes": list(classes)}
                if col.is_known(key) or key in col.seen_keys:
                    col.fail(key, what, case)
                    continue
                again = replay(case)
                if again is not None:
                    col.fail(again["key"], again["what"], again["case"])
                else:
                    col.unreproduced += 1
            col.sample(cases[0][0])
        return t

    runner.drive(col, make, seed, spec["modules"], shrink=False)
    return col.result()


def replay_all(case):
    fails = judge([(case["expr"], case["kind"], tuple(case["classes"]))], sut.new_checker())
    return [{"key": k, "what": w, "case": case} for k, w, *_ in fails]


def replay(case):
    for f in replay_all(case):
        return f
    return None

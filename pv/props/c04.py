"""C04 - type-to-type assignability is reflexive and sound for membership."""

from __future__ import annotations

import re
import warnings

from hypothesis import given, strategies as st

from pv import gen_values as G
from pv import member, runner, sut, universe
from pv.universe import NS, UNIVERSE

warnings.filterwarnings("ignore")

ID = "C04"
TECHNIQUE = "property-based testing: can_assign verdicts vs witness-based inclusion under an independent membership model, plus algebraic laws (Hypothesis)"
RULE = (
    "pairs (A, B) of Any-free Values built from typing expressions (type_from_runtime of the grammar in "
    "pv/universe.py, incl. one-leaf mutations of A as near-misses) and from direct Value recipes "
    "(SequenceValue, DictIncompleteValue, literals, ...). Oracle: accept => no witness o (universe + "
    "structural inhabitants of B) with o in B and o not in A; reflexivity; Never/object; union laws; Any laws; "
    "exclude-Any never turns a rejection into an acceptance; same verdict on a fresh and a used Checker; "
    "`y: A = b` (b: B) diagnosed consistently with soundness. Non-trivial = accepted pair with A != B and "
    "neither side object/Never, or a rejected one-leaf near-miss (distinct by recipe pair)."
    ' A history mode asks, for each of 14 expected types (protocols incl. the generic structural Pops[T], abstract containers, TypedDict, Callable), every universe object as a literal on three Checkers in three different orders; the verdict for a pair must not depend on the order.'
)
ASSUMPTIONS = [
    "inclusion B <= A is decided on witnesses only (under-approximation of semantic subtyping); Unknown membership is skipped",
    "excluded by construction / counted: bare generic classes (list, dict, tuple, type, G) standing for G[Any]; "
    "pairs where A holds a fixed-length tuple and B a variadic tuple (documented leniency); mocks; Callable values (C07)",
]

from pyanalyze import value as V  # noqa: E402
from pyanalyze.checker import Checker  # noqa: E402

BARE_GENERIC = {"list", "dict", "tuple", "type", "G"}
_ctx = None
_used_ctx = None


def ctx():
    global _ctx
    if _ctx is None:
        _ctx = Checker()
    return _ctx


def accepts(a, b, c=None):
    r = a.can_assign(b, c or ctx())
    return not isinstance(r, V.CanAssignError)


def has_bare_generic(r):
    if isinstance(r, (list, tuple)):
        if len(r) == 2 and r[0] == "cls" and r[1] in BARE_GENERIC:
            return True
        if len(r) == 2 and r[0] == "rt" and isinstance(r[1], str):
            return bool(re.search(r"(?<![\w.])(list|dict|tuple|type|G|List|Dict|Tuple|Type)(?!\[|\w)", r[1]))
        return any(has_bare_generic(x) for x in r)
    return False


def tuple_shapes(ty, acc=None):
    """Collect ('fixed'|'variadic') for every tuple pattern inside a Ty term."""
    if acc is None:
        acc = set()
    if isinstance(ty, tuple):
        if ty and ty[0] == "tuple" and ty[1] is tuple:
            members = ty[2]
            if any(m for m, _ in members):
                acc.add("variadic")
            if any(not m for m, _ in members) or not members:
                acc.add("fixed")  # has positions that must be present (or is exactly empty)
        for x in ty:
            if isinstance(x, tuple):
                tuple_shapes(x, acc)
    return acc


def leniency(ta, tb):
    sa, sb = tuple_shapes(ta), tuple_shapes(tb)
    return ("fixed" in sa) and ("variadic" in sb)


def expressible(r):
    """Can this recipe be written as a declared type?  (DictIncompleteValue and list/set
    SequenceValues only arise as inferred types of displays.)"""
    if isinstance(r, (list, tuple)):
        if r and r[0] == "dictinc":
            return False
        if r and r[0] == "seq" and r[1] != "tuple":
            return False
        if r and r[0] == "sub" and len(r) == 3 and r[2]:
            return False  # "exactly this class" only arises from inference (type(x))
        if r and r[0] == "lit" and isinstance(r[1], str):
            return not isinstance(eval(r[1], NS), (list, dict, set, tuple, frozenset))
        return all(expressible(x) for x in r)
    return True


def never_in_dictinc(r):
    """A dict display whose key or value type is Never is not something inference builds."""
    if isinstance(r, (list, tuple)):
        if r and r[0] == "dictinc":
            return G.contains_tag(r, "never")
        return any(never_in_dictinc(x) for x in r)
    return False


def any_free(v):
    return not any(isinstance(x, V.AnyValue) for x in v.walk_values())


def localize_pair(a, b, w, depth=0):
    """Strip unions / Annotated wrappers down to the member pair that carries the escape."""
    if depth > 8:
        return a, b
    if isinstance(a, V.AnnotatedValue) and isinstance(b, V.AnnotatedValue):
        # keep the wrapper visible in the key (|annotated) but look inside
        return localize_pair(a.value, b.value, w, depth + 1)
    if isinstance(b, V.AnnotatedValue):
        return localize_pair(a, b.value, w, depth + 1)
    if isinstance(a, V.AnnotatedValue):
        return localize_pair(a.value, b, w, depth + 1)
    if isinstance(b, V.MultiValuedValue):
        for m in b.vals:
            if member.member(w, m) is True and accepts(a, m):
                return localize_pair(a, m, w, depth + 1)
    if isinstance(a, V.MultiValuedValue):
        for m in a.vals:
            if accepts(m, b):
                return localize_pair(m, b, w, depth + 1)
    return a, b


def witnesses_of(tb):
    objs = member.inhabitants(tb, 14)
    return objs


def check_pair(ra, rb, laws=True):
    """Returns (fails, info)."""
    fails = []
    a, b = G.build(ra), G.build(rb)
    ta, tb = member.from_value(a), member.from_value(b)
    info = {"accepted": None, "nontrivial": False, "excluded": None}

    def bad(law, what):
        fails.append((f"{law}|{type(a).__name__}|{type(b).__name__}", what))

    # reflexivity
    for x in (a, b):
        if not accepts(x, x):
            fails.append((f"reflexive|{type(x).__name__}", f"{x} does not accept itself"))
    # Never / object
    if not accepts(a, V.NO_RETURN_VALUE):
        fails.append((f"never-accepted|{type(a).__name__}", f"{a} does not accept Never"))
    if not accepts(V.TypedValue(object), b):
        fails.append((f"object-accepts|{type(b).__name__}", f"object does not accept {b}"))

    acc = accepts(a, b)
    info["accepted"] = acc
    if not any_free(a) or not any_free(b):
        info["excluded"] = "contains-any"
        return fails, info
    if leniency(ta, tb):
        info["excluded"] = "tuple-leniency"
    elif not expressible(ra):
        info["excluded"] = "inferred-only-expected-side"
    elif never_in_dictinc(rb):
        info["excluded"] = "never-typed-dict-display"
    elif acc:
        esc = None
        unk = False
        for o in witnesses_of(tb):
            ma = member.mem(o, ta)
            if ma is None:
                unk = True
            elif ma is False:
                esc = o
                break
        if esc is not None:
            la, lb = localize_pair(a, b, esc)
            ann = "|annotated" if isinstance(a, V.AnnotatedValue) or isinstance(b, V.AnnotatedValue) else ""
            fails.append((f"sound|{type(la).__name__}|{type(lb).__name__}{ann}",
                          f"{a} accepts {b} but {esc!r} is in B and not in A"))
        info["unknown"] = unk
        info["nontrivial"] = a != b and ta != ("cls", object) and tb != member.NEVER and not _is_object(a)
    if not laws:
        return fails, info

    # union laws
    if isinstance(b, V.MultiValuedValue) and b.vals:
        each = [accepts(a, m) for m in b.vals]
        if acc != all(each):
            bad("union-right", f"{a} <- {b} is {acc} but per member: {each}")
    if isinstance(a, V.MultiValuedValue) and a.vals and not isinstance(b, V.MultiValuedValue):
        if any(accepts(m, b) for m in a.vals) and not acc:
            bad("union-left", f"a member of {a} accepts {b} but the union does not")
    # Any laws
    any_v = V.AnyValue(V.AnySource.explicit)
    if not accepts(any_v, b) or not accepts(a, any_v):
        bad("any", f"Any <- {b}: {accepts(any_v, b)}; {a} <- Any: {accepts(a, any_v)}")
    return fails, info


def _is_object(v):
    return isinstance(v, V.TypedValue) and v.typ is object and type(v) is V.TypedValue


def check_exclude_any(ra, rb):
    a, b = G.build(ra), G.build(rb)
    c = ctx()
    default = accepts(a, b, c)
    with c.set_exclude_any():
        strict = accepts(a, b, c)
    if strict and not default:
        return [(f"exclude-any|{type(a).__name__}|{type(b).__name__}",
                 f"{a} <- {b}: rejected by default but accepted in 'Any only matches Any' mode")], default, strict
    return [], default, strict


def check_cache(ra, rb):
    global _used_ctx
    a1, b1 = G.build(ra), G.build(rb)
    fresh = accepts(a1, b1, Checker())
    if _used_ctx is None:
        _used_ctx = Checker()
    a2, b2 = G.build(ra), G.build(rb)
    used = accepts(a2, b2, _used_ctx)
    if fresh != used:
        return [(f"history|{type(a1).__name__}|{type(b1).__name__}",
                 f"{a1} <- {b1}: {fresh} on a fresh Checker, {used} on a Checker that answered other pairs")]
    return []


# expected type, a template for literals that fit (k = 0..), literals of the same Python class that do not
WIDE_RIGHT = [
    ("tuple[int, ...]", "({k}, {k})", ['(3, "x")', '("a",)']),
    ("tuple[int, int]", "({k}, {k})", ['(3, "x")', "(1,)", "(1, 2, 3)"]),
    ("Sequence[int]", "({k},)", ['("a", 1)', "(None,)"]),
    ("frozenset[int]", "frozenset({{{k}}})", ['frozenset({"a"})', 'frozenset({1, "a"})']),
    ("Callable[[int], int]", "(lambda x: x + {k})", ["(lambda: 0)", "(lambda x, y: 0)"]),
    ("int", "{k}", ['"a"', "1.5"]),
    ("tuple[str, ...] | int", '("s{k}",)', ["(1,)", '("a", 1)']),
    ("Mapping[str, int] | frozenset[str]", 'frozenset({{"s{k}"}})', ["frozenset({1})"]),
]


def wide_right_cases():
    """B = a union of 10-13 hashable literals that all fit A, plus (possibly) one literal of the same Python class
    that does not, placed first, last or in the middle.  The union must be accepted exactly when every member is."""
    for tsrc, template, misfits in WIDE_RIGHT:
        for n in (9, 10, 12):
            fits = [template.format(k=k) for k in range(n)]
            for mis in [None] + misfits:
                for pos in ("first", "last", "middle"):
                    if mis is None:
                        if pos == "first":
                            yield tsrc, fits + [template.format(k=99)]
                        continue
                    if pos == "first":
                        yield tsrc, [mis] + fits
                    elif pos == "last":
                        yield tsrc, fits + [mis]
                    else:
                        yield tsrc, fits[:5] + [mis] + fits[5:]


def check_wide_right(tsrc, members, col=None):
    ns = dict(NS)
    a = G.build(("rt", tsrc))
    vals = [V.KnownValue(eval(m, ns)) for m in members]
    b = V.MultiValuedValue(vals)
    acc = accepts(a, b, Checker())
    c = Checker()  # one more for all members: they are distinct values
    each = [accepts(a, v, c) for v in vals]
    if col is not None:
        col.case(nontrivial_id=("wide-right", tsrc, tuple(members)), label=["route:wide-right", "accepted" if acc else "rejected"])
    if acc != all(each):
        bad = [m for m, e in zip(members, each) if not e]
        return [(f"union-right|wide|{tsrc.split('[')[0]}",
                 f"{tsrc} <- a union of {len(members)} literals is {'accepted' if acc else 'rejected'} although member by member "
                 f"{'these are rejected: ' + ', '.join(bad) if bad else 'every literal is accepted'} (members: {', '.join(members)})",
                 {"wide_right": tsrc, "members": members})]
    return []


HISTORY_EXPECTED = ["HasX", "SupportsClose", "Pops[int]", "Pops[str]", "Iterable[int]", "Sequence[str]", "Sized", "Container[int]",
                    "SupportsAbs[int]", "Mapping[str, int]", "Hashable", "Callable[[int], int]", "TD", "list[int]"]
HISTORY_EXTRA_OBJECTS = ["types.SimpleNamespace(x=1)", "types.SimpleNamespace(y=1)", "types.SimpleNamespace(x='s')", "[1, 2]", "['a']", "[]",
                         "{'a': 1}", "{1: 'a'}", "{1}", "{'a'}", "bytearray(b'a')", "D(1)", "D(1, 'y')", "(lambda x: x)", "(lambda: 0)"]


def check_history(tsrc, index, col=None):
    """One expected type, every object of the universe (plus unhashable instances whose attributes differ) as a
    literal: the verdicts of one Checker answering them in order, of another answering them in reverse order and
    of a third answering them in an order of its own must coincide - a verdict depends on the pair, not on what was
    asked before."""
    import types as _types

    ns = dict(NS, types=_types)
    objs = [(o.src, o.obj) for o in UNIVERSE] + [(s, eval(s, ns)) for s in HISTORY_EXTRA_OBJECTS]
    a_of = lambda: G.build(("rt", tsrc))
    orders = [list(range(len(objs))), list(reversed(range(len(objs)))),
              sorted(range(len(objs)), key=lambda i: runner.h64(("c04-history", index, i)))]
    verdicts = []
    for order in orders:
        c = Checker()
        a = a_of()
        v = {}
        for i in order:
            try:
                v[i] = accepts(a, V.KnownValue(objs[i][1]), c)
            except Exception as e:
                v[i] = f"raises {type(e).__name__}"
        verdicts.append(v)
    fails = []
    for i, (src, _) in enumerate(objs):
        vs = [v[i] for v in verdicts]
        if col is not None:
            col.case(nontrivial_id=("history", tsrc, src), label=["route:history-orders"])
        if len(set(map(str, vs))) > 1:
            fails.append((f"history|order|{tsrc.split('[')[0]}",
                          f"{tsrc} <- Literal[{src}]: {vs[0]} when asked in universe order, {vs[1]} in reverse order, {vs[2]} in a shuffled "
                          f"order (one Checker per order, each answering all {len(objs)} literals)",
                          {"history": tsrc, "index": index}))
            break
    return fails


# ----------------------------------------------------------------- generators

LEAF_TOKENS = ["int", "bool", "str", "float", "bytes", "A", "B", "C", "object", "None", "E", "N", "complex"]


def rt_types():
    return universe.type_strategy(3, star=False)


_LEAF_RE = re.compile(r"(?<![\w.\"'])(int|bool|str|float|bytes|A|B|C|object|None|E|N|complex)(?![\w\"'])")


@st.composite
def rt_pairs(draw):
    """Pairs of typing-expression sources; two thirds are one-leaf mutations of each other."""
    a = draw(rt_types())
    if draw(st.integers(0, 2)) == 0:
        return a, draw(rt_types()), "free"
    toks = list(_LEAF_RE.finditer(a))
    bsrc = a
    if toks:
        m = draw(st.sampled_from(toks))
        new = draw(st.sampled_from([t for t in LEAF_TOKENS if t != m.group(1)]))
        cand = a[: m.start()] + new + a[m.end():]
        if universe.valid_type_src(cand) and not re.search(r"[tT]ype\[(None|N|bytes|complex)\]", cand):
            bsrc = cand
    if draw(st.booleans()):
        a, bsrc = bsrc, a
    return a, bsrc, "near"


@st.composite
def pairs(draw, any_ok=False):
    mode = draw(st.integers(0, 9))
    vals = G.values(any_ok=any_ok, typevars=False, callables=False, max_leaves=5)
    if mode < 3:
        return draw(vals), draw(vals), "free"
    if mode < 9:
        a, b, kind = draw(rt_pairs())
        return ("rt", a), ("rt", b), kind
    ra, rb = ("rt", draw(rt_types())), draw(vals)
    if draw(st.booleans()):
        ra, rb = rb, ra
    return ra, rb, "free"


# ----------------------------------------------------------------- program route

HEADER = "from typing import *\nfrom typing_extensions import *\nfrom pv_vocab import *\n"


def program_check(src_pairs, checker, col=None):
    lines = HEADER.rstrip("\n").split("\n")
    lmap = {}
    for i, (asrc, bsrc) in enumerate(src_pairs):
        lines.append(f"def f{i}(b: {bsrc}) -> None:")
        lines.append(f"    y: {asrc} = b")
        lmap[len(lines)] = i
    res = sut.check_source("\n".join(lines) + "\n", checker=checker)
    if res.raised is not None:
        raise res.raised
    diag = set()
    noisy = set()
    for d in res.diags:
        i = lmap.get(d.lineno, lmap.get((d.lineno or 0) + 1))
        if d.code == "incompatible_assignment" and d.lineno in lmap:
            diag.add(lmap[d.lineno])
        elif d.code not in ("unused_variable", "unused_assignment") and i is not None:
            noisy.add(i)
    fails = []
    for i, (asrc, bsrc) in enumerate(src_pairs):
        if i in noisy:
            if col:
                col.discarded += 1
            continue
        ta = member.from_rt(universe.eval_type(asrc))
        tb = member.from_rt(universe.eval_type(bsrc))
        accepted = i not in diag
        if col:
            col.case(nontrivial_id=("prog", asrc, bsrc) if accepted and asrc != bsrc else None,
                     label=["route:program", f"accepted:{accepted}"])
        if leniency(ta, tb) or not accepted:
            continue
        for o in witnesses_of(tb):
            if member.mem(o, ta) is False:
                fails.append({
                    "key": f"prog-sound|{ta[0]}|{tb[0]}",
                    "what": f"`y: {asrc} = b` with b: {bsrc} is not diagnosed but {o!r} is in B and not in A",
                    "case": {"route": "program", "a": asrc, "b": bsrc},
                })
                break
    return fails


# ----------------------------------------------------------------- shards


def small_typeddicts():
    """Every TypedDict over keys a (int | str) and b (str) with each key absent or present with
    required x readonly flags, open / closed / extra_items=int."""
    import itertools

    def options(key, types):
        yield None
        for t in types:
            for req in (True, False):
                for ro in (False, True):
                    yield [key, ["cls", t], req, ro]
    out = []
    for ia, ib in itertools.product(list(options("a", ["int", "str"])), list(options("b", ["str"]))):
        items = [x for x in (ia, ib) if x is not None]
        for extra in (None, ["never"], ["cls", "int"]):
            out.append(("td", items, extra, False))
    return out


USER_GENERICS = ["Rev[int, str]", "Rev[str, int]", "Fwd[int, str]", "Fwd[str, int]", "IntKeyed[str]", "IntKeyed[int]", "LS[int]", "LS[str]",
                 "Rev[int, int]", "Rev[bool, str]"]
CONTAINERS = ["dict[int, str]", "dict[str, int]", "dict[str, str]", "dict[int, int]", "Mapping[int, str]", "Mapping[str, int]",
              "Mapping[object, object]", "list[int]", "list[str]", "Sequence[int]", "Sequence[str]", "Iterable[int]", "Iterable[str]",
              "Iterable[object]", "dict[bool, str]", "Mapping[str, float]"]


def user_generic_pairs():
    """Every (container type, user generic derived from a container) pair in both directions, and user
    generics among themselves."""
    for u in USER_GENERICS:
        for c in CONTAINERS:
            yield ("rt", c), ("rt", u)
            yield ("rt", u), ("rt", c)
        for u2 in USER_GENERICS:
            yield ("rt", u), ("rt", u2)


def shards(tier, seed):
    n = 16
    per = 1200 if tier == "quick" else 40000
    out = [{"mode": "pairs", "index": i, "examples": per} for i in range(n)]
    out += [{"mode": "td-pairs", "index": i, "of": 8} for i in range(8)]
    out.append({"mode": "user-generics"})
    out += [{"mode": "history", "index": i, "of": 4} for i in range(4)]
    out += [{"mode": "wide-right", "index": i, "of": 4} for i in range(4)]
    out += [{"mode": "program", "index": i, "modules": 5 if tier == "quick" else 150} for i in range(4 if tier == "quick" else 16)]
    return out


def run_shard(spec):
    col = runner.Collector(spec)
    seed = runner.mix_seed(spec["seed"], ID, spec["name"])
    if spec["mode"] == "wide-right":
        for k, (tsrc, members) in enumerate(wide_right_cases()):
            if k % spec.get("of", 1) != spec.get("index", 0):
                continue
            for key, what, case in check_wide_right(tsrc, members, col):
                col.fail(key, what, case)
        return col.result()
    if spec["mode"] == "history":
        for i, tsrc in enumerate(HISTORY_EXPECTED):
            if i % spec["of"] == spec["index"]:
                for key, what, case in check_history(tsrc, i, col):
                    col.fail(key, what, case)
        return col.result()
    if spec["mode"] == "pairs":
        def make():
            @given(pairs(any_ok=False))
            def t(p):
                ra, rb, kind = p
                if has_bare_generic(ra) or has_bare_generic(rb):
                    col.extra["excluded_bare_generic"] = col.extra.get("excluded_bare_generic", 0) + 1
                    return
                fails, info = check_pair(ra, rb)
                fails += check_cache(ra, rb) if col.evaluations % 25 == 0 else []
                if info["excluded"]:
                    k = "excluded_" + info["excluded"].replace("-", "_")
                    col.extra[k] = col.extra.get(k, 0) + 1
                nontriv = info["nontrivial"] or (kind == "near" and info["accepted"] is False)
                col.case(nontrivial_id=(ra, rb) if nontriv else None,
                         label=[f"accepted:{info['accepted']}", f"kind:{kind}", f"a:{ra[0]}"],
                         sample={"A": G.describe(ra)[:160], "B": G.describe(rb)[:160], "accepted": info["accepted"]})
                for key, what in fails:
                    col.fail(key, what[:500], {"a": ra, "b": rb}, raise_new=True)
            return t
        runner.drive(col, make, seed, spec["examples"], replay=replay)

        def make_any():
            @given(pairs(any_ok=True))
            def t(p):
                ra, rb, kind = p
                fails, default, strict = check_exclude_any(ra, rb)
                col.case(nontrivial_id=("xany", ra, rb) if default != strict else None,
                         label=[f"exclude-any:default={default},strict={strict}"])
                for key, what in fails:
                    col.fail(key, what[:500], {"a": ra, "b": rb, "exclude_any": True}, raise_new=True)
            return t
        runner.drive(col, make_any, seed + 7, spec["examples"] // 3, replay=replay)
        return col.result()

    if spec["mode"] == "user-generics":
        for ra, rb in user_generic_pairs():
            fails, info = check_pair(ra, rb, laws=False)
            col.case(nontrivial_id=("ug", ra[1], rb[1]) if info["accepted"] and ra != rb else None,
                     label=[f"accepted:{info['accepted']}", "kind:user-generic"])
            for key, what in fails:
                col.fail(key, what[:500], {"a": list(ra), "b": list(rb)})
        col.extra["exhaustive_bounds"] = ["user generics derived from containers (Generic[...] first / last, permuted parameters, partially applied) x container types, both directions"]
        return col.result()
    if spec["mode"] == "td-pairs":
        tds = small_typeddicts()
        k = 0
        for i, ra in enumerate(tds):
            for j, rb in enumerate(tds):
                k += 1
                if k % spec["of"] != spec["index"]:
                    continue
                fails, info = check_pair(ra, rb, laws=False)
                col.case(nontrivial_id=("td", i, j) if info["accepted"] and i != j else None,
                         label=[f"accepted:{info['accepted']}", "kind:td-pair"])
                for key, what in fails:
                    col.fail(key, what[:500], {"a": ra, "b": rb})
            if col.out_of_time():
                break
        col.extra["exhaustive_bounds"] = ["all ordered pairs of TypedDicts over keys a (int|str) / b (str), each absent or required x readonly, open / closed / extra_items=int"]
        return col.result()

    checker = sut.new_checker()

    def make_p():
        @given(st.lists(rt_pairs(), min_size=40, max_size=40))
        def t(ps):
            src_pairs = [(p[0], p[1]) for p in ps
                         if not has_bare_generic(("rt", p[0])) and not has_bare_generic(("rt", p[1]))]
            for f in program_check(src_pairs, checker, col):
                if col.is_known(f["key"]) or f["key"] in col.seen_keys:
                    col.fail(f["key"], f["what"], f["case"])
                    continue
                again = replay(f["case"])
                if again is not None:
                    col.fail(again["key"], again["what"], again["case"])
                else:
                    col.unreproduced += 1
        return t
    runner.drive(col, make_p, seed, spec["modules"], shrink=False)
    return col.result()


def replay_all(case):
    if "wide_right" in case:
        return [{"key": k, "what": w[:500], "case": case} for k, w, _ in check_wide_right(case["wide_right"], case["members"])]
    if "history" in case:
        return [{"key": k, "what": w[:500], "case": case} for k, w, _ in check_history(case["history"], case["index"])]
    if case.get("route") == "program":
        return program_check([(case["a"], case["b"])], sut.new_checker())
    if case.get("exclude_any"):
        fails, _, _ = check_exclude_any(case["a"], case["b"])
    else:
        fails, _ = check_pair(case["a"], case["b"])
        fails += check_cache(case["a"], case["b"])
    return [{"key": k, "what": w[:500], "case": case} for k, w in fails]


def replay(case):
    for f in replay_all(case):
        return f
    return None

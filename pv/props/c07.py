"""C07 - callable compatibility is behaviourally sound."""

from __future__ import annotations

import inspect
import itertools

from hypothesis import given, strategies as st

from pv import member, runner, sut, universe
from pv.props import c05

ID = "C07"
TECHNIQUE = "bounded exhaustive enumeration of (expected, actual) def-signature pairs; accepted pairs are executed against every call shape under CPython (behavioural differential); typed variant checked for variance with witness inclusion"
RULE = (
    "ordered pairs (expected f, actual g) of def headers over all parameter kinds/default patterns (<= tier bound "
    "parameters each; g's names equal to, shifted from, or reversed w.r.t. f's) judged by "
    "CallableValue(sig f).can_assign(KnownValue(g)); for every accepted pair all call shapes (<=3 positionals, "
    "<=3 keywords over both name sets) are executed: f binds c => g binds c. Plus Callable[[...], R] as the "
    "expected side and method overrides at program level, and a typed variant (bool<=int<=float, B<=A, "
    "Literal[1]<=int, X<=Optional[X]): for accepted pairs and every shape both bind, the expected parameter type "
    "is included in the actual one and ret(g) in ret(f). Non-trivial = accepted pair with different parameter "
    "lists (distinct by header pair)."
    " The listed 'multiple values' finding is keyed by the parameter kinds of the expected signature (it needs a positional-only parameter or *args there)."
)
ASSUMPTIONS = [
    "only accepted pairs are checked (the property is one-directional)",
    "CPython binding observed by calling `def g(...): pass`",
]

from pyanalyze import value as V  # noqa: E402
from pyanalyze.checker import Checker  # noqa: E402

POOL = "abcd"


def rename(params, mode):
    names = [nm for k, nm, _ in params if k in ("po", "pk", "ko")]
    if mode == "same":
        mp = {n: n for n in names}
    elif mode == "shift":
        mp = {n: POOL[(POOL.index(n) + 1) % 4] for n in names}
    else:
        mp = dict(zip(names, reversed(names)))
    return [(k, mp.get(nm, nm), d) for k, nm, d in params]


def shapes(names):
    names = sorted(set(names))
    out = []
    for npos in range(0, 4):
        pos = [str(i + 1) for i in range(npos)]
        for nk in range(0, 4):
            for kws in itertools.combinations(names, nk):
                out.append(", ".join(pos + [f"{k}=9" for k in kws]))
    return out


def pair_verdict(ctx, fparams, gparams):
    f = c05.make_fn(fparams)
    g = c05.make_fn(gparams)
    sf = ctx.get_signature(f)
    r = V.CallableValue(sf).can_assign(V.KnownValue(g), ctx)
    return f, g, not isinstance(r, V.CanAssignError)


def counterexample(f, g, names):
    for c in shapes(names):
        if c05.binds(f, c) and not c05.binds(g, c):
            return c
    return None


def classify(fparams, gparams, call):
    """Root-cause oriented key: why CPython refuses the call on the actual callable."""
    import re

    g = c05.make_fn(gparams)
    try:
        eval(f"f({call})", {"f": g})
        return "binds"
    except TypeError as e:
        msg = str(e)
    if "multiple values" in msg:
        # the recorded finding needs a positional slot of the expected signature that cannot be named (positional-only
        # or *args): the kinds of the expected parameters are part of the key
        return "g-raises:multiple values|f:" + "+".join(sorted({k for k, _, _ in fparams}))
    msg = re.sub(r"^\w+\(\) ", "", msg)
    msg = re.sub(r"'[^']*'", "'_'", msg)
    msg = re.sub(r"\d+", "N", msg)
    return "g-raises:" + msg[:60]


def check_pair(ctx, fparams, gparams, col=None):
    f, g, accepted = pair_verdict(ctx, fparams, gparams)
    hf, hg = c05.header(fparams), c05.header(gparams, "g")
    if col is not None:
        col.case(nontrivial_id=(hf, hg) if accepted and fparams != gparams else None,
                 label="accepted" if accepted else "rejected")
    if not accepted:
        return None
    names = [nm for k, nm, _ in fparams + gparams if k in ("po", "pk", "ko")] + ["zz"]
    ce = counterexample(f, g, names)
    if ce is None:
        return None
    return (f"untyped|{classify(fparams, gparams, ce)}",
            f"expected `{hf}` accepts actual `{hg}` but f({ce}) binds while g({ce}) raises TypeError")


# ----------------------------------------------------------------- typed variant

TYPES = ["bool", "int", "float", "A", "B", "Literal[1]", "Optional[int]", "str", "Optional[B]", "object"]


def ty(src):
    return member.from_rt(universe.eval_type(src))


_incl = {}


def included(x, y):
    k = (x, y)
    if k not in _incl:
        tx, ty_ = ty(x), ty(y)
        r = True
        for o in member.inhabitants(tx, 16):
            if member.mem(o, ty_) is False:
                r = False
                break
        _incl[k] = r
    return _incl[k]


def typed_header(params, anns, ret, name):
    parts = []
    n_po = sum(1 for k, _, _ in params if k == "po")
    seen = 0
    star = False
    for (kind, nm, d), a in zip(params, anns):
        dflt = " = None" if d else ""
        if kind == "po":
            parts.append(f"{nm}: {a}{dflt}")
            seen += 1
            if seen == n_po:
                parts.append("/")
        elif kind == "pk":
            parts.append(f"{nm}: {a}{dflt}")
        elif kind == "va":
            parts.append(f"*args: {a}")
            star = True
        elif kind == "ko":
            if not star:
                parts.append("*")
                star = True
            parts.append(f"{nm}: {a}{dflt}")
        else:
            parts.append(f"**kwargs: {a}")
    return f"def {name}({', '.join(parts)}) -> {ret}: pass"


def make_typed(params, anns, ret, name):
    ns = dict(universe.NS)
    exec(typed_header(params, anns, ret, name), ns)
    return ns[name]


def receiving(fn, call):
    """Map each argument of the call to the parameter that receives it."""
    sig = inspect.signature(fn)
    args = [x for x in call.split(", ") if x and "=" not in x]
    kwargs = {x.split("=")[0]: 9 for x in call.split(", ") if "=" in x}
    try:
        ba = sig.bind(*args, **kwargs)
    except TypeError:
        return None
    out = {}
    pos_i = 0
    for name, val in ba.arguments.items():
        p = sig.parameters[name]
        if p.kind is p.VAR_POSITIONAL:
            for _ in val:
                out[("pos", pos_i)] = name
                pos_i += 1
        elif p.kind is p.VAR_KEYWORD:
            for k in val:
                out[("kw", k)] = name
        elif name in kwargs and (p.kind is p.KEYWORD_ONLY or name not in [None]):
            # filled by keyword if it was passed by keyword
            if name in kwargs and pos_i >= len(args):
                out[("kw", name)] = name
            elif name in kwargs and list(sig.parameters).index(name) >= len(args):
                out[("kw", name)] = name
            else:
                out[("pos", pos_i)] = name
                pos_i += 1
        else:
            out[("pos", pos_i)] = name
            pos_i += 1
    return out


def check_typed(ctx, fparams, fanns, fret, gparams, ganns, gret, col=None):
    f = make_typed(fparams, fanns, fret, "f")
    g = make_typed(gparams, ganns, gret, "g")
    sf = ctx.get_signature(f)
    r = V.CallableValue(sf).can_assign(V.KnownValue(g), ctx)
    accepted = not isinstance(r, V.CanAssignError)
    hf, hg = typed_header(fparams, fanns, fret, "f"), typed_header(gparams, ganns, gret, "g")
    if col is not None:
        col.case(nontrivial_id=("typed", hf, hg) if accepted and (fanns != ganns or fret != gret) else None,
                 label="typed-accepted" if accepted else "typed-rejected")
    if not accepted:
        return None
    if not included(gret, fret):
        return (f"typed|return-covariance", f"expected `{hf}` accepts `{hg}` but return {gret} is not included in {fret}")
    names = [nm for k, nm, _ in fparams + gparams if k in ("po", "pk", "ko")] + ["zz"]
    fa = {nm: a for (k, nm, _), a in zip(fparams, fanns)}
    ga = {nm: a for (k, nm, _), a in zip(gparams, ganns)}
    for c in shapes(names):
        if not c05.binds(f, c):
            continue
        if not c05.binds(g, c):
            return (f"typed|binding|{classify(fparams, gparams, c)}",
                    f"expected `{hf}` accepts `{hg}` but f({c}) binds while g({c}) does not")
        rf, rg = receiving(f, c), receiving(g, c)
        if rf is None or rg is None:
            continue  # inspect.Signature.bind is stricter than the interpreter in corner cases
        for arg, pf in rf.items():
            pg = rg.get(arg)
            if pg is None:
                continue
            tf, tg = fa[pf], ga[pg]
            if not included(tf, tg):
                kf = next(k for k, nm, _ in fparams if nm == pf)
                kg = next(k for k, nm, _ in gparams if nm == pg)
                return (f"typed|param-contravariance|{kf}->{kg}",
                        f"expected `{hf}` accepts `{hg}` but in f({c}) the argument received by {pf}: {tf} goes to {pg}: {tg} "
                        f"in g, and {tf} is not included in {tg}")
    return None


# ----------------------------------------------------------------- program routes


def program_check(pairs, checker, col=None):
    """pairs: (fparams, gparams).  Expected side as Callable[[...], None] for positional-only
    shapes, and as an override."""
    lines = ["from typing import *"]
    lmap = {}
    for i, (fp, gp) in enumerate(pairs):
        n_req = sum(1 for k, _, d in fp if k in ("po", "pk") and not d)
        lines.append(c05.header(gp, f"g{i}"))
        lines.append(f"def use{i}(cb: Callable[[{', '.join(['int'] * n_req)}], Any]) -> None: ...")
        lines.append(f"class Base{i}:")
        lines.append("    " + c05.header([("pk", "self", False)] + list(fp), "m").replace("def m(self, /", "def m(self, /"))
        lines.append(f"class Sub{i}(Base{i}):")
        lines.append("    " + c05.header([("pk", "self", False)] + list(gp), "m"))
        lmap[len(lines)] = (i, "override")
        # the same override with the incompatible definition further away: behind a compatible
        # base in a multiple-inheritance list, and two levels up a chain
        lines.append(f"class Near{i}:")
        lines.append("    " + c05.header([("pk", "self", False)] + list(gp), "m"))
        lines.append(f"class MSub{i}(Near{i}, Base{i}):")
        lines.append("    " + c05.header([("pk", "self", False)] + list(gp), "m"))
        lmap[len(lines)] = (i, "override-mi")
        lines.append(f"class Mid{i}(Base{i}):")
        lines.append("    " + c05.header([("pk", "self", False)] + list(gp), "m"))
        lines.append(f"class Chain{i}(Mid{i}):")
        lines.append("    " + c05.header([("pk", "self", False)] + list(gp), "m"))
        lmap[len(lines)] = (i, "override-chain")
        # return covariance through coroutine functions: calling an `async def` yields a coroutine object,
        # never an int, whether or not the function declares a return type
        lines.append("async " + c05.header(gp, f"ag{i}"))
        lines.append("async " + c05.header(gp, f"agr{i}").replace("): pass", ") -> int: return 0"))
        lines.append(f"def use_r{i}(cb: Callable[[{', '.join(['int'] * n_req)}], int]) -> None: ...")
        # protocol method, callback protocol and Literal-function routes (no positional-only headers: `self` comes first)
        if not any(k == "po" for k, _, _ in list(fp) + list(gp)):
            lines.append(f"class P{i}(Protocol):")
            lines.append("    " + c05.header([("pk", "self", False)] + list(fp), "m").replace(": pass", ": ..."))
            lines.append(f"class Impl{i}:")
            lines.append("    " + c05.header([("pk", "self", False)] + list(gp), "m"))
            # the same implementation as an explicit subclass of the protocol (nominal route)
            lines.append(f"class ImplX{i}(P{i}):")
            lines.append("    " + c05.header([("pk", "self", False)] + list(gp), "m"))
            lines.append(f"def want_p{i}(x: P{i}) -> None: ...")
            lines.append(f"class CB{i}(Protocol):")
            lines.append("    " + c05.header([("pk", "self", False)] + list(fp), "__call__").replace(": pass", ": ..."))
            lines.append(f"def want_cb{i}(x: CB{i}) -> None: ...")
    lines.append("def body():")
    for i, (fp, gp) in enumerate(pairs):
        lines.append(f"    use{i}(g{i})")
        lmap[len(lines)] = (i, "callable")
        lines.append(f"    use_r{i}(ag{i})")
        lmap[len(lines)] = (i, "async-unannotated")
        lines.append(f"    use_r{i}(agr{i})")
        lmap[len(lines)] = (i, "async-annotated")
        if not any(k == "po" for k, _, _ in list(fp) + list(gp)):
            lines.append(f"    want_p{i}(Impl{i}())")
            lmap[len(lines)] = (i, "protocol-method")
            lines.append(f"    want_p{i}(ImplX{i}())")
            lmap[len(lines)] = (i, "protocol-method-explicit")
            lines.append(f"    want_cb{i}(g{i})")
            lmap[len(lines)] = (i, "callback-protocol")
    from pyanalyze.error_code import ErrorCode

    res = sut.check_source("\n".join(lines) + "\n", checker=checker)
    if res.raised is not None:
        raise res.raised
    diag = {}
    for d in res.diags:
        if d.lineno in lmap and d.code in ("incompatible_argument", "incompatible_override", "incompatible_call"):
            diag[lmap[d.lineno]] = d.description
    fails = []
    for i, (fp, gp) in enumerate(pairs):
        g = c05.make_fn(gp)
        n_req = sum(1 for k, _, d in fp if k in ("po", "pk") and not d)
        call = ", ".join(str(k + 1) for k in range(n_req))
        accepted = (i, "callable") not in diag
        if col is not None:
            col.case(nontrivial_id=("prog-callable", n_req, c05.header(gp)) if accepted else None,
                     label="prog-callable-accepted" if accepted else "prog-callable-rejected")
        if accepted and not c05.binds(g, call):
            fails.append((f"prog-callable|npos={n_req}|g={c05.kinds_key(gp)}",
                          f"`{c05.header(gp, 'g')}` accepted where Callable[[{', '.join(['int'] * n_req)}], Any] is expected but g({call}) raises TypeError",
                          fp, gp))
        for route in ("async-unannotated", "async-annotated"):
            if (i, route) not in diag:
                fails.append((f"prog-{route}|accepted-as-Callable-returning-int",
                              f"`async {c05.header(gp, 'g')}`{' -> int' if route.endswith('-annotated') and not route.startswith('async-un') else ''} is accepted where "
                              f"Callable[[{', '.join(['int'] * n_req)}], int] is expected, but calling it returns a coroutine object", fp, gp))
                break
        # override: self is bound in both, so compare the remaining parameters
        if any(k == "po" for k, _, _ in fp + gp):
            continue  # `self` before a positional-only marker would change the header's meaning
        for route in ("protocol-method", "protocol-method-explicit", "callback-protocol"):
            acc = (i, route) not in diag
            if col is not None:
                col.case(nontrivial_id=(route, c05.header(fp), c05.header(gp)) if acc and fp != gp else None,
                         label=f"{route}-accepted" if acc else f"{route}-rejected")
            if acc:
                f = c05.make_fn(fp)
                names = [nm for k, nm, _ in list(fp) + list(gp) if k in ("po", "pk", "ko")] + ["zz"]
                ce = counterexample(f, g, names)
                if ce is not None:
                    what = (f"`class Impl{'(P)' if route.endswith('explicit') else ''}: {c05.header(gp, 'm')}` is accepted where a protocol P with `{c05.header(fp, 'm')}` is expected" if route.startswith("protocol-method")
                            else f"`{c05.header(gp, 'g')}` is accepted where a callback protocol with `{c05.header(fp, '__call__')}` is expected")
                    fails.append((f"prog-{route}|{classify(fp, gp, ce)}", f"{what} but ({ce}) binds for the expected signature and raises TypeError for the actual one", fp, gp))
        acc_o = (i, "override") not in diag
        if col is not None:
            col.case(nontrivial_id=("prog-override", c05.header(fp), c05.header(gp)) if acc_o and fp != gp else None,
                     label="override-accepted" if acc_o else "override-rejected")
        for far in ("override-mi", "override-chain"):
            acc_far = (i, far) not in diag
            if acc_far != acc_o:
                fails.append((f"prog-{far}|verdict-differs-from-direct-override",
                              f"override `{c05.header(gp, 'm')}` of `{c05.header(fp, 'm')}` is {'accepted' if acc_o else 'reported'} against the direct "
                              f"base but {'accepted' if acc_far else 'reported'} when the same base is "
                              f"{'behind a compatible base (class MSub(Near, Base))' if far == 'override-mi' else 'two levels up (Base <- Mid <- Chain)'}",
                              fp, gp))
                break
        if acc_o:
            f = c05.make_fn(fp)
            names = [nm for k, nm, _ in list(fp) + list(gp) if k in ("po", "pk", "ko")] + ["zz"]
            ce = counterexample(f, g, names)
            if ce is not None:
                fails.append((f"prog-override|{classify(fp, gp, ce)}",
                              f"override `{c05.header(gp, 'm')}` of `{c05.header(fp, 'm')}` is not reported but m({ce}) binds in the base and raises TypeError in the subclass",
                              fp, gp))
    return fails


# ----------------------------------------------------------------- shards


def shards(tier, seed):
    n = 16
    bound = 3 if tier == "quick" else 4
    out = [{"mode": "untyped", "index": i, "of": n, "bound": bound} for i in range(n)]
    out += [{"mode": "typed", "index": i, "examples": 400 if tier == "quick" else 20000} for i in range(n)]
    out += [{"mode": "program", "index": i, "modules": 6 if tier == "quick" else 200} for i in range(4 if tier == "quick" else 16)]
    return out


def run_shard(spec):
    col = runner.Collector(spec)
    ctx = Checker()
    if spec["mode"] == "untyped":
        sigs = list(c05.signatures(spec["bound"]))
        n = 0
        for fi, fp in enumerate(sigs):
            if fi % spec["of"] != spec["index"]:
                continue
            for gp0 in sigs:
                for mode in ("same", "shift", "rev"):
                    gp = rename(gp0, mode)
                    if mode != "same" and gp == gp0:
                        continue
                    r = check_pair(ctx, fp, gp, col)
                    if r is not None:
                        col.fail(r[0], r[1], {"f": [list(p) for p in fp], "g": [list(p) for p in gp]})
            if col.out_of_time():
                break
        col.extra["exhaustive"] = not col.budget_hit
        col.extra["exhaustive_bounds"] = [f"all ordered pairs of def headers with <= {spec['bound']} parameters x 3 name assignments x all call shapes"]
        col.sample({"expected": c05.header(sigs[(7 * spec['index'] + 3) % len(sigs)]), "actual": c05.header(sigs[(11 * spec['index'] + 5) % len(sigs)], "g")})
        return col.result()

    seed = runner.mix_seed(spec["seed"], ID, spec["name"])
    small = [p for p in c05.signatures(3) if 1 <= len(p)]

    if spec["mode"] == "typed":
        @st.composite
        def typed_pairs(draw):
            fp = draw(st.sampled_from(small))
            same_shape = draw(st.integers(0, 3)) > 0
            gp = fp if same_shape else rename(draw(st.sampled_from(small)), draw(st.sampled_from(["same", "shift"])))
            fa = [draw(st.sampled_from(TYPES)) for _ in fp]
            if same_shape and draw(st.booleans()):
                ga = list(fa)
                if ga:
                    i = draw(st.integers(0, len(ga) - 1))
                    ga[i] = draw(st.sampled_from(TYPES))
            else:
                ga = [draw(st.sampled_from(TYPES)) for _ in gp]
            fr = draw(st.sampled_from(TYPES))
            gr = fr if draw(st.booleans()) else draw(st.sampled_from(TYPES))
            return fp, fa, fr, gp, ga, gr

        def make():
            @given(typed_pairs())
            def t(p):
                fp, fa, fr, gp, ga, gr = p
                r = check_typed(ctx, fp, fa, fr, gp, ga, gr, col)
                col.sample({"expected": typed_header(fp, fa, fr, "f"), "actual": typed_header(gp, ga, gr, "g")})
                if r is not None:
                    col.fail(r[0], r[1], {"typed": True, "f": [list(x) for x in fp], "fa": fa, "fr": fr,
                                          "g": [list(x) for x in gp], "ga": ga, "gr": gr}, raise_new=True)
            return t
        runner.drive(col, make, seed, spec["examples"], replay=replay)
        return col.result()

    checker = sut.new_checker(settings=sut.settings_from({"incompatible_override": True}))

    def make_p():
        @given(st.lists(st.tuples(st.sampled_from(small), st.sampled_from(small), st.sampled_from(["same", "shift", "rev"])),
                        min_size=30, max_size=30))
        def t(ps):
            pairs = [(fp, rename(gp, m)) for fp, gp, m in ps]
            for key, what, fp, gp in program_check(pairs, checker, col):
                col.fail(key, what, {"program": True, "f": [list(x) for x in fp], "g": [list(x) for x in gp]})
        return t
    runner.drive(col, make_p, seed, spec["modules"], shrink=False)
    return col.result()


def replay_all(case):
    ctx = Checker()
    tup = lambda ps: [tuple(p) for p in ps]
    if case.get("typed"):
        r = check_typed(ctx, tup(case["f"]), case["fa"], case["fr"], tup(case["g"]), case["ga"], case["gr"])
        return [{"key": r[0], "what": r[1], "case": case}] if r else []
    if case.get("program"):
        checker = sut.new_checker(settings=sut.settings_from({"incompatible_override": True}))
        return [{"key": k, "what": w, "case": case} for k, w, _, _ in program_check([(tup(case["f"]), tup(case["g"]))], checker)]
    r = check_pair(ctx, tup(case["f"]), tup(case["g"]))
    return [{"key": r[0], "what": r[1], "case": case}] if r else []


def replay(case):
    for f in replay_all(case):
        return f
    return None

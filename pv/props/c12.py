"""C12 - the checker is total: no crash, no internal error, well-formed output."""

from __future__ import annotations

import re
import warnings

from hypothesis import given, strategies as st

from pv import corpus, gen_prog, gen_values as G
from pv import runner, sut

warnings.filterwarnings("ignore")

ID = "C12"
TECHNIQUE = "fuzzing with structured generators: the repository's own test snippets under AST-level mutation and random enabled-code configurations (Hypothesis; coverage-guided atheris run over the same generator in the thorough tier when available), plus generated Value pairs through the public value API"
RULE = (
    "programs = bodies of the repository's @assert_passes/@assert_fails tests (916 snippets) with 0-3 AST-level "
    "mutations inside function bodies (swap operands, star-wrap / drop / duplicate arguments, change constants and "
    "names, move a statement into finally, wrap in not / subscript / attribute / call / walrus / f-string / "
    "comparison chain / comprehension / lambda / yield, annotate assignments, **dict arguments), each checked under a random "
    "enabled-code configuration (default, all codes on, random subset); plus generated well-typed programs. "
    "Oracle: check() returns, no internal_error, every diagnostic has a registered code, 1 <= lineno <= number "
    "of lines, 0 <= col <= len(line), non-empty description. Value API: for generated Value pairs and typevar maps "
    "can_assign, is_assignable, unite_values, substitute_typevars, str and simplify return. Non-trivial = mutated "
    "program that imports and yields at least one diagnostic (distinct by source); value pairs with a "
    "non-leaf operand."
    ' Mutation operators include `expensive-arith` (literal integer arithmetic with results above 10^6 bits, in plain function bodies only).'
)
ASSUMPTIONS = [
    "termination is observed per module with a 60 s alarm (typical check: milliseconds); a module exceeding it is reported as no-termination with the pyanalyze frame it was in",
    "programs whose import fails after mutation are discarded (the property is about modules that import successfully)",
]
MAX_ABSTAIN = 0.5

from pyanalyze.error_code import ErrorCode  # noqa: E402

ALL_CODES = {e.name for e in ErrorCode}


def config_pool(seed):
    """A fixed pool of configurations per shard (a Checker costs ~0.1 s to build)."""
    import random

    rnd = random.Random(seed)  # derived from VERIF_SEED; only selects which configurations exist
    names = sorted(ALL_CODES)
    pool = [None, "all"]
    for _ in range(3):
        pool.append(("on", sorted(rnd.sample(names, 12))))
        pool.append(("off", sorted(rnd.sample(names, 12))))
    return pool


def config_strategy(seed=0):
    return st.sampled_from(config_pool(seed))


def settings_of(cfg):
    if cfg is None:
        return None
    if cfg == "all":
        return {e: True for e in ErrorCode}
    mode, names = cfg
    return {getattr(ErrorCode, n): mode == "on" for n in names}


_checkers = {}


def checker_for(cfg):
    key = repr(cfg)
    if key not in _checkers or _checkers[key][1] > 400:
        if len(_checkers) > 10:
            _checkers.clear()
        _checkers[key] = [sut.new_checker(settings=settings_of(cfg)), 0]
    _checkers[key][1] += 1
    return _checkers[key][0]


def user_code_raised(tb_text):
    """Did the exception originate in the checked module's own code (a plugin / CustomCheck /
    __getattr__ defined by the snippet), called back by pyanalyze?"""
    files = re.findall(r'File "([^"]+)", line \d+, in ', tb_text)
    if re.search(r"\.can_(be_)?assign(ed)?\(\) (missing|takes) ", tb_text):
        return True  # a CustomCheck defined by the snippet with a (mutated) wrong signature
    if not files:
        return False
    last = files[-1]
    return "/pyanalyze/" not in last and ("/lib/python" not in last) and ("site-packages" not in last)


def frame_of(tb_text):
    frames = re.findall(r"/pyanalyze/(\w+)\.py\", line \d+, in (\w+)", tb_text)
    exc = re.findall(r"^(\w+(?:Error|Exception|Warning)?)\b.*$", tb_text.strip().splitlines()[-1]) if tb_text.strip() else []
    m = re.search(r"Internal error: (\w+)\(", tb_text)
    name = m.group(1) if m else (exc[0] if exc else "?")
    if name == "RecursionError":
        return name, "unbounded-recursion"  # the innermost frame of a stack overflow is arbitrary
    return name, (":".join(frames[-1]) if frames else "?")


CHECK_LIMIT_S = 60


class CheckTimeout(BaseException):
    def __init__(self, where):
        super().__init__(where)
        self.where = where


class time_limit:
    """SIGALRM based limit for one check (main thread of a shard process only)."""

    def __init__(self, seconds):
        self.seconds = seconds

    def __enter__(self):
        import signal
        import threading

        self.active = threading.current_thread() is threading.main_thread() and hasattr(signal, "SIGALRM")
        if not self.active:
            return self

        def handler(signum, frame):
            where = "?"
            f = frame
            while f is not None:
                fn = f.f_code.co_filename
                if "/pyanalyze/" in fn and "/test_" not in fn:
                    where = f"{fn.rsplit('/', 1)[-1][:-3]}:{f.f_code.co_name}"
                    break
                f = f.f_back
            raise CheckTimeout(where)
        self.old = signal.signal(signal.SIGALRM, handler)
        signal.alarm(self.seconds)
        return self

    def __exit__(self, *exc):
        import signal

        if self.active:
            signal.alarm(0)
            signal.signal(signal.SIGALRM, self.old)
        return False


def c10_stable(src):
    import re

    return not re.search(r"\b(datetime|time|random|uuid|getpid|secrets|tempfile|urandom)\b", src)


def judge_program(src, cfg):
    """Returns ('discard', reason) | ('ok', ndiags, []) | ('fail', ndiags, [(key, what)])."""
    try:
        with time_limit(CHECK_LIMIT_S):
            res = sut.check_source(src, checker=checker_for(cfg))
    except CheckTimeout as e:
        if e.where.startswith(("analysis_lib:make_module", "importer:")):
            # the module's own import-time code does not finish: not a module that imports successfully
            return ("discard", "import-does-not-finish")
        # "checking terminates": a module that normally takes milliseconds is still being checked after
        # CHECK_LIMIT_S seconds; the frame tells where (replay re-runs it under the same limit)
        return ("fail", 0, [(f"no-termination|{e.where}", f"check() was still running after {CHECK_LIMIT_S} s in {e.where}")])
    except SyntaxError as e:
        return ("discard", "syntax")
    except BaseException as e:  # import of the module failed: outside the property's domain
        if isinstance(e, (KeyboardInterrupt, SystemExit, MemoryError)):
            raise
        return ("discard", "import:" + type(e).__name__)
    fails = []
    if res.raised is not None:
        import traceback

        tb = "".join(traceback.format_exception(type(res.raised), res.raised, res.raised.__traceback__))
        if user_code_raised(tb):
            return ("discard", "user-code-raises")
        name, where = frame_of(tb)
        fails.append((f"raises|{type(res.raised).__name__}|{where}", f"check() raised {type(res.raised).__name__}: {res.raised}"))
        return ("fail", 0, fails)
    lines = src.splitlines()
    for d in res.diags:
        if d.code == "internal_error":
            if user_code_raised(d.description):
                return ("discard", "user-code-raises")
            name, where = frame_of(d.message + "\n" + d.description)
            if "for integer string conversion" in d.description:
                where = "int-max-str-digits"  # one root cause, many frames: displaying an int of > 4300 digits
            fails.append((f"internal_error|{name}|{where}", f"internal_error: ...{d.description[-300:]}"))
            continue
        if d.code not in ALL_CODES:
            fails.append((f"malformed|unregistered-code|{d.code}", f"diagnostic with unregistered code {d.code!r}"))
        if not d.description.strip():
            fails.append((f"malformed|empty-message|{d.code}", f"{d.code} at line {d.lineno} has an empty message"))
        if d.lineno is None:
            fails.append((f"malformed|no-lineno|{d.code}", f"{d.code}: {d.description[:80]} carries no line number"))
            continue
        if not (1 <= d.lineno <= max(1, len(lines))):
            fails.append((f"malformed|lineno-range|{d.code}", f"{d.code} reported at line {d.lineno} of a {len(lines)}-line file"))
            continue
        line = lines[d.lineno - 1] if lines else ""
        if d.col is None or not (0 <= d.col <= len(line)):
            fails.append((f"malformed|col-range|{d.code}", f"{d.code} at line {d.lineno} col {d.col}, line length {len(line)}"))
    return ("fail" if fails else "ok", len(res.diags), fails)


# ----------------------------------------------------------------- value API

_ctx = None


def judge_values(ra, rb, tvm):
    global _ctx
    from pyanalyze import value as V
    from pyanalyze.checker import Checker
    from pv.universe import NS

    if _ctx is None:
        _ctx = Checker()
    a, b = G.build(ra), G.build(rb)
    tvmap = {NS[k]: G.build(v) for k, v in tvm.items()}
    ops = [
        ("can_assign", lambda: a.can_assign(b, _ctx)),
        ("is_assignable", lambda: a.is_assignable(b, _ctx)),
        ("unite_values", lambda: V.unite_values(a, b)),
        ("substitute_typevars", lambda: a.substitute_typevars(tvmap)),
        ("str", lambda: str(a)),
        ("simplify", lambda: a.simplify()),
        ("walk_values", lambda: list(a.walk_values())),
        ("get_type_value", lambda: a.get_type_value()),
        ("can_overlap", lambda: a.can_overlap(b, _ctx, V.OverlapMode.EQ)),
    ]
    fails = []
    for name, op in ops:
        try:
            op()
        except Exception as e:
            import traceback

            tb = "".join(traceback.format_exception(type(e), e, e.__traceback__))
            _, where = frame_of(tb)
            fails.append((f"value-api|{name}|{type(e).__name__}|{where}", f"{name} raised {type(e).__name__}: {e} for a={G.describe(ra)[:120]} b={G.describe(rb)[:120]}"))
    return fails


# ----------------------------------------------------------------- shards


def shards(tier, seed):
    n = 16
    out = [{"mode": "corpus", "index": i, "examples": 150 if tier == "quick" else 12000} for i in range(n - 3)]
    out += [{"mode": "typed", "index": i, "examples": 60 if tier == "quick" else 3000} for i in range(1)]
    out += [{"mode": "values", "index": i, "examples": 2500 if tier == "quick" else 150000} for i in range(2)]
    out.append({"mode": "baseline"})
    out.append({"mode": "cli", "examples": 10 if tier == "quick" else 300})
    # systematic single-mutation sweep: every snippet x every mutation operator x 1 [5] site positions
    out += [{"mode": "sweep", "index": i, "of": 12, "positions": 1 if tier == "quick" else 5} for i in range(12)]
    if tier == "thorough":
        out += [{"mode": "atheris", "index": i, "seconds": 480} for i in range(4)]
    return out


def run_shard(spec):
    col = runner.Collector(spec)
    seed = runner.mix_seed(spec["seed"], ID, spec["name"])
    mode = spec["mode"]
    if mode == "baseline":
        # every unmutated snippet under the all-codes configuration
        for origin, src in corpus.snippets():
            r = judge_program(src, "all")
            if r[0] == "discard":
                col.discarded += 1
                continue
            col.case(nontrivial_id=src if r[1] else None, label="baseline")
            for key, what in (r[2] if r[0] == "fail" else []):
                col.fail(key, f"{origin}: {what}", {"src": src, "cfg": "all"})
            if col.out_of_time():
                break
        return col.result()

    if mode == "cli":
        import os as _os
        import shutil as _sh
        import tempfile as _tf

        d = _tf.mkdtemp(prefix="pv_c12_cli_")
        try:
            def make_c():
                @given(corpus.program_strategy(2))
                def t(prog):
                    origin, src, muts = prog
                    r = judge_program(src, None)
                    if r[0] == "discard":
                        col.discarded += 1
                        return
                    path = _os.path.join(d, "pv_cli_case.py")
                    open(path, "w").write(src)
                    code, out, err = sut.run_cli([path], cwd=d)
                    col.case(nontrivial_id=("cli", src) if muts else None, label="route:cli")
                    key = None
                    if code not in (0, 1):
                        key = f"cli|exit-status|{code}"
                    elif "Traceback (most recent call last)" in err and "Internal error" not in out + err and "Failed to import" not in out + err:
                        name, where = frame_of(err)
                        key = f"cli|traceback|{name}|{where}"
                    if key:
                        col.fail(key, f"{origin} mutated by {muts}: python -m pyanalyze exits {code}; stderr tail: {err[-300:]}",
                                 {"src": src, "cli": True}, raise_new=True)
                return t
            runner.drive(col, make_c, seed, spec["examples"], shrink=False)
        finally:
            _sh.rmtree(d, ignore_errors=True)
        return col.result()

    if mode == "atheris":
        import json as _json
        import subprocess
        import sys as _sys
        import tempfile

        root = __import__("os").path.dirname(__import__("os").path.dirname(__import__("os").path.dirname(__import__("os").path.abspath(__file__))))
        if not __import__("os").path.isdir(__import__("os").path.join(root, ".deps", "atheris")):
            col.extra["atheris"] = "unavailable (.deps/atheris missing: run MANIFEST.setup_cmd); Hypothesis-only"
            col.evaluations += 0
            return col.result()
        d = tempfile.mkdtemp(prefix="pv_c12_ath_")
        try:
            out = __import__("os").path.join(d, "out.json")
            subprocess.run([_sys.executable, "-m", "pv.c12_atheris", out, str(spec["seconds"]), str(seed % 100000 + spec["index"])],
                           cwd=root, stdout=subprocess.DEVNULL, stderr=subprocess.DEVNULL, timeout=spec["seconds"] + 300)
            data = _json.load(open(out))
            st_ = data["stats"]
            col.evaluations += st_["programs"] - st_["discarded"]
            col.discarded += st_["discarded"]
            col.extra["atheris_executions"] = st_["executions"]
            col.extra["atheris_programs"] = st_["programs"]
            col.classes["route:atheris"] += st_["programs"]
            for f in data["failures"]:
                again = replay(f["case"])
                if again is not None:
                    col.fail(again["key"], again["what"], again["case"])
                else:
                    col.unreproduced += 1
        finally:
            __import__("shutil").rmtree(d, ignore_errors=True)
        return col.result()

    if mode == "sweep":
        snips = corpus.snippets()
        fracs = [((seed * 7 + k * 13) % 20) / 19 for k in range(spec["positions"])]
        cfgs = ["all", None]
        n = 0
        for si, (origin, src0) in enumerate(snips):
            if si % spec["of"] != spec["index"]:
                continue
            for mi, name in enumerate(corpus.MUTATIONS):
                for frac in fracs:
                    # vary the position with the snippet and operator so that one run covers many positions
                    f = (frac + (si * 31 + mi * 17) % 20 / 19) % 1.0
                    src = corpus.mutate(src0, [(f, name)])
                    if src is None or not c10_stable(src):
                        continue
                    cfg = cfgs[(si + mi) % 2]
                    r = judge_program(src, cfg)
                    n += 1
                    if r[0] == "discard":
                        col.discarded += 1
                        continue
                    col.case(nontrivial_id=src if r[1] else None, label=["route:sweep", f"mut:{name}"])
                    if r[0] == "fail":
                        for key, what in r[2]:
                            col.fail(key, f"{origin} mutated by [{name}]: {what}", {"src": src, "cfg": cfg})
            if col.out_of_time():
                break
        col.extra["sweep_programs"] = n
        col.extra["exhaustive_bounds"] = ["every repository test snippet x every mutation operator at %d site position(s)" % spec["positions"]]
        return col.result()

    if mode == "corpus":
        def make():
            @given(corpus.program_strategy(3), config_strategy(seed))
            def t(prog, cfg):
                origin, src, muts = prog
                r = judge_program(src, cfg)
                if r[0] == "discard":
                    col.discarded += 1
                    col.classes["discard:" + r[1]] += 1
                    return
                col.case(nontrivial_id=src if (muts and r[1]) else None,
                         label=["mutations:%d" % len(muts)] + [f"mut:{m}" for m in muts] + ["cfg:" + (cfg if isinstance(cfg, str) else cfg[0] if cfg else "default")],
                         sample={"origin": origin, "mutations": muts} if muts else None)
                if r[0] == "fail":
                    for key, what in r[2]:
                        col.fail(key, f"{origin} mutated by {muts}: {what}", {"src": src, "cfg": list(cfg) if isinstance(cfg, tuple) else cfg}, raise_new=True)
            return t
        runner.drive(col, make, seed, spec["examples"], replay=replay)
        return col.result()

    if mode == "typed":
        def make_t():
            @given(st.lists(gen_prog.function("f0", 2), min_size=1, max_size=3), config_strategy(seed))
            def t(funcs, cfg):
                src = gen_prog.HEADER + "\n\n".join(f["src"].replace("def f0(", f"def f{i}(") for i, f in enumerate(funcs)) + "\n"
                r = judge_program(src, cfg)
                if r[0] == "discard":
                    col.discarded += 1
                    return
                col.case(nontrivial_id=src if r[1] else None, label="typed-program")
                if r[0] == "fail":
                    for key, what in r[2]:
                        col.fail(key, what, {"src": src, "cfg": list(cfg) if isinstance(cfg, tuple) else cfg}, raise_new=True)
            return t
        runner.drive(col, make_t, seed, spec["examples"], replay=replay)
        return col.result()

    def make_v():
        vals = G.values(any_ok=True, typevars=True)
        tvmaps = st.dictionaries(st.sampled_from(["T", "U", "TB", "TC"]), G.values(typevars=True, max_leaves=3), max_size=2)

        @given(vals, vals, tvmaps)
        def t(ra, rb, tvm):
            fails = judge_values(ra, rb, tvm)
            col.case(nontrivial_id=(ra, rb) if (ra[0] not in ("lit", "cls") or rb[0] not in ("lit", "cls")) else None,
                     label=f"value:{ra[0]}")
            for key, what in fails:
                col.fail(key, what, {"a": ra, "b": rb, "tvmap": tvm}, raise_new=True)
        return t
    runner.drive(col, make_v, seed, spec["examples"], replay=replay)
    return col.result()


def replay_all(case):
    if case.get("cli"):
        import os as _os
        import shutil as _sh
        import tempfile as _tf

        d = _tf.mkdtemp(prefix="pv_c12_cli_")
        try:
            path = _os.path.join(d, "pv_cli_case.py")
            open(path, "w").write(case["src"])
            code, out, err = sut.run_cli([path], cwd=d)
            if code not in (0, 1):
                return [{"key": f"cli|exit-status|{code}", "what": err[-300:], "case": case}]
            if "Traceback (most recent call last)" in err and "Internal error" not in out + err and "Failed to import" not in out + err:
                name, where = frame_of(err)
                return [{"key": f"cli|traceback|{name}|{where}", "what": err[-300:], "case": case}]
            return []
        finally:
            _sh.rmtree(d, ignore_errors=True)
    if "src" in case:
        cfg = case.get("cfg")
        if isinstance(cfg, list):
            cfg = (cfg[0], cfg[1])
        r = judge_program(case["src"], cfg)
        return [{"key": k, "what": w, "case": case} for k, w in (r[2] if r[0] == "fail" else [])]
    return [{"key": k, "what": w, "case": case} for k, w in judge_values(case["a"], case["b"], case.get("tvmap", {}))]


def replay(case):
    for f in replay_all(case):
        return f
    return None

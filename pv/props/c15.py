"""C15 - type-variable solutions satisfy the bounds they were solved from."""

from __future__ import annotations

import ast
import itertools
import warnings

from hypothesis import given, strategies as st

from pv import member, runner, sut, universe
from pv.universe import NS

warnings.filterwarnings("ignore")

ID = "C15"
TECHNIQUE = "property-based testing: generated generic signatures x argument tuples in every parameter permutation; solution read off the inferred return type and checked against the bounds with witness-based inclusion; API-level resolve_bounds_map permutations confirmed on real calls"
RULE = (
    "a case = (type variable kind: plain / bound=A / constraints (int, str); a multiset of 1-4 bounds over the "
    "vocabulary {int,bool,str,float,A,B,object,None,int|str,Literal[1],list[int],list[bool]}, each a lower bound "
    "(parameter T or list[T]) or an upper bound (parameter Callable[[T], None])). Besides the permutations, each helper has two twins with the same parameters whose return type (None, int) does not mention T; their verdict must agree. The helper `def h(...) -> tuple[T]` "
    "is emitted once per permutation of its parameters and called with matching arguments; oracle: same "
    "accepted/diagnosed verdict in every permutation; if accepted, the solution read from the inferred tuple type "
    "includes every lower bound, is included in every upper/declared bound and equals a constraint; an accepted "
    "call must have some solution. The same multiset goes through typevar.resolve_bounds_map in every order "
    "(API level) and is reported only if the real call shows the disagreement too. Non-trivial = >=2 bounds that "
    "are incomparable or of mixed direction (distinct by case)."
    ' Constrained type variables include constraint lists whose members are subtypes of one another in both orders ((A, B), (B, A), (float, int), (object, int)); an Any[inference] solution of a constrained variable is not a constraint.'
)
ASSUMPTIONS = [
    "inclusion is decided on witnesses (pv/member.py); an Any solution is 'no verdict'",
    "list[T] parameters contribute lower bounds only (pyanalyze treats list covariantly; the property speaks of argument-derived lower bounds)",
]

from pyanalyze import value as V  # noqa: E402
from pyanalyze.annotations import type_from_runtime  # noqa: E402
from pyanalyze.checker import Checker  # noqa: E402
from pyanalyze.typevar import resolve_bounds_map  # noqa: E402

VOCAB = ["int", "bool", "str", "float", "A", "B", "object", "None", "int | str", "Literal[1]", "list[int]", "list[bool]"]
TVS = {"plain": "T", "bound": "TB", "constr": "TC", "constr-ab": "TCab", "constr-ba": "TCba", "constr-fi": "TCfi", "constr-oi": "TCoi"}
# constrained type variables; besides (int, str) of the vocabulary, constraint lists whose members are subtypes of
# one another, broader first and narrower first (declared in the generated module)
CONSTRAINTS = {"constr": ("int", "str"), "constr-ab": ("A", "B"), "constr-ba": ("B", "A"), "constr-fi": ("float", "int"),
               "constr-oi": ("object", "int")}
TV_DECLS = [f'{TVS[k]} = TypeVar("{TVS[k]}", {", ".join(c)})' for k, c in CONSTRAINTS.items() if k != "constr"]


def ident(t):
    return t.replace(" | ", "_or_").replace("[", "_").replace("]", "").replace(" ", "")


def ty(src):
    return member.from_rt(universe.eval_type(src))


_incl_cache = {}


def included(x_ty, y_ty):
    """x <= y on witnesses: True / False / None."""
    k = (repr(x_ty), repr(y_ty))
    if k not in _incl_cache:
        unk = False
        res = True
        for o in member.inhabitants(x_ty, 16):
            m = member.mem(o, y_ty)
            if m is False:
                res = False
                break
            if m is None:
                unk = True
        _incl_cache[k] = res if res is False else (None if unk else True)
    return _incl_cache[k]


def lower_type(b):
    """The type that the bound contributes (for list[T] params the element type)."""
    return b["t"]


def has_solution(kind, bounds):
    lowers = [ty(b["t"]) for b in bounds if b["dir"] in ("lower", "list", "proto")]
    uppers = [ty(b["t"]) for b in bounds if b["dir"] == "upper"]
    if kind == "bound":
        uppers.append(ty("A"))
    cands = [member.union(lowers) if lowers else member.NEVER]
    if kind in CONSTRAINTS:
        cands = [ty(c) for c in CONSTRAINTS[kind]]
    for s in cands:
        ok = all(included(l, s) is not False for l in lowers) and all(included(s, u) is not False for u in uppers)
        if ok:
            return True
    return False


def check_solution(kind, bounds, sigma):
    """sigma: pyanalyze Value for T.  Returns list of (what-key, text)."""
    out = []
    s_ty = member.from_value(sigma)
    if kind in CONSTRAINTS and isinstance(sigma, V.AnyValue) and sigma.source is V.AnySource.inference:
        # "several constraints remain": with constraint lists made of classes (nested or disjoint) one constraint is
        # always the narrowest one that accepts the bounds
        return [("not-a-constraint", f"solution {sigma} is not one of the constraints {CONSTRAINTS[kind]}")]
    if member.has_top_any(s_ty) or member.contains_unknown(s_ty):
        return None
    for b in bounds:
        b_ty = ty(b["t"])
        if b["dir"] in ("lower", "list", "proto"):
            if included(b_ty, s_ty) is False:
                out.append(("lower-not-included", f"lower bound {b['t']} is not included in the solution {sigma}"))
        else:
            if included(s_ty, b_ty) is False:
                out.append(("upper-violated", f"solution {sigma} is not included in upper bound {b['t']}"))
    if kind == "bound" and included(s_ty, ty("A")) is False:
        out.append(("declared-bound-violated", f"solution {sigma} is not included in the declared bound A"))
    if kind in CONSTRAINTS:
        if not any(included(s_ty, ty(c)) is True and included(ty(c), s_ty) is True for c in CONSTRAINTS[kind]):
            out.append(("not-a-constraint", f"solution {sigma} is not one of the constraints {CONSTRAINTS[kind]}"))
    return out


# ----------------------------------------------------------------- program level

HEADER = ["from typing import *", "from typing_extensions import *", "from pv_vocab import *"]


def param_decl(tv, b, i):
    if b["dir"] == "lower":
        return f"a{i}: {tv}"
    if b["dir"] == "list":
        return f"a{i}: list[{tv}]"
    if b["dir"] == "proto":
        # a generic structural protocol: list[t] is a Pops[t]
        return f"a{i}: Pops[{tv}]"
    return f"a{i}: Callable[[{tv}], None]"


def arg_expr(b):
    if b["dir"] == "lower":
        return f"p_{ident(b['t'])}"
    if b["dir"] == "list":
        return f"pl_{ident(b['t'])}"
    if b["dir"] == "proto":
        return f"pb_{ident(b['t'])}"
    return f"f_{ident(b['t'])}"


def build_module(cases, max_perms=6):
    lines = list(HEADER) + TV_DECLS
    for t in VOCAB:
        lines.append(f"def f_{ident(t)}(x: {t}) -> None: ...")
        # a class that matches the generic protocol Pops[t] structurally
        lines += [f"class Box_{ident(t)}:", f"    def pop(self) -> {t}: ..."]
    plan = []
    for ci, (kind, bounds) in enumerate(cases):
        tv = TVS[kind]
        perms = list(itertools.permutations(range(len(bounds))))[:max_perms]
        for pi, perm in enumerate(perms):
            params = ", ".join(param_decl(tv, bounds[i], i) for i in perm)
            lines.append(f"def h{ci}_{pi}({params}) -> tuple[{tv}]: ...")
        # the same parameters with a return type that does not mention the type variable
        params0 = ", ".join(param_decl(tv, bounds[i], i) for i in perms[0])
        lines.append(f"def v{ci}({params0}) -> None: ...")
        lines.append(f"def w{ci}({params0}) -> int: ...")
        plan.append(perms)
    params = ", ".join([f"p_{ident(t)}: {t}" for t in VOCAB] + [f"pl_{ident(t)}: list[{t}]" for t in VOCAB]
                       + [f"pb_{ident(t)}: Box_{ident(t)}" for t in VOCAB])
    lines.append(f"def caller({params}) -> None:")
    lmap = {}
    for ci, (kind, bounds) in enumerate(cases):
        for pi, perm in enumerate(plan[ci]):
            args = ", ".join(arg_expr(bounds[i]) for i in perm)
            lines.append(f"    r{ci}_{pi} = h{ci}_{pi}({args})")
            lmap[len(lines)] = (ci, pi, "pos")
        # keyword spelling of the first permutation, keywords reversed
        kw = ", ".join(f"a{i}={arg_expr(bounds[i])}" for i in reversed(range(len(bounds))))
        lines.append(f"    k{ci} = h{ci}_0({kw})")
        lmap[len(lines)] = (ci, 0, "kw")
        args0 = ", ".join(arg_expr(bounds[i]) for i in plan[ci][0])
        lines.append(f"    v{ci}({args0})")
        lmap[len(lines)] = (ci, 0, "void")
        lines.append(f"    w{ci}({args0})")
        lmap[len(lines)] = (ci, 0, "int-return")
    return "\n".join(lines) + "\n", lmap


def run_cases(cases, checker):
    src, lmap = build_module(cases)
    res = sut.check_source(src, checker=checker, collect_values=True)
    if res.raised is not None:
        raise res.raised
    diag_lines = {}
    for d in res.diags:
        if d.code in ("incompatible_argument", "incompatible_call") and d.lineno in lmap:
            diag_lines.setdefault(d.lineno, []).append(d.description)
        elif d.code == "internal_error":
            raise RuntimeError("internal_error in generated module: " + d.description[-300:])
    sigma = {}
    for node in ast.walk(res.tree):
        if isinstance(node, ast.Call) and node.lineno in lmap and isinstance(node.func, ast.Name) and node.func.id.startswith("h"):
            vals = res.values_of(node)
            if vals:
                v = vals[-1]
                if isinstance(v, V.AnnotatedValue):
                    v = v.value
                if isinstance(v, V.SequenceValue) and len(v.members) == 1:
                    sigma[node.lineno] = v.members[0][1]
                else:
                    sigma[node.lineno] = None
    out = {}
    for line, (ci, pi, style) in lmap.items():
        out.setdefault(ci, []).append({"perm": pi, "style": style, "diagnosed": line in diag_lines,
                                       "msgs": diag_lines.get(line, []), "sigma": sigma.get(line)})
    return out, src


def incomparable_uppers(kind, bounds):
    ups = [ty(b["t"]) for b in bounds if b["dir"] == "upper"]
    if kind == "bound":
        ups.append(ty("A"))
    for x, y in itertools.combinations(ups, 2):
        if included(x, y) is False and included(y, x) is False:
            return True
    return False


def judge(kind, bounds, obs):
    fails = _judge(kind, bounds, obs)
    if fails and incomparable_uppers(kind, bounds):
        fails = [(k + "|incomparable-uppers", w) for k, w in fails]
    return fails


def _judge(kind, bounds, obs):
    """obs: list of per-spelling observations.  Returns list of (key, what)."""
    fails = []
    verdicts = {o["diagnosed"] for o in obs}
    dirs = "+".join(sorted(b["dir"] for b in bounds))
    if len(verdicts) > 1:
        acc = [f"{o['style']}#{o['perm']}" for o in obs if not o["diagnosed"]]
        rej = [f"{o['style']}#{o['perm']}" for o in obs if o["diagnosed"]]
        fails.append((f"order-dependent-verdict|{kind}|{dirs}",
                      f"{kind} T with bounds {fmt(bounds)}: accepted in spellings {acc} but diagnosed in {rej}"))
    for o in obs:
        if o["diagnosed"]:
            continue
        if o["sigma"] is None:
            if o["style"] in ("void", "int-return") and not has_solution(kind, bounds):
                fails.append((f"unsatisfiable-accepted|{kind}|{dirs}",
                              f"{kind} T with bounds {fmt(bounds)}: no value satisfies them but the call is accepted "
                              f"({o['style']} spelling: return type without the type variable)"))
            continue
        r = check_solution(kind, bounds, o["sigma"])
        if r is None:
            if not has_solution(kind, bounds):
                fails.append((f"unsatisfiable-accepted|{kind}|{dirs}",
                              f"{kind} T with bounds {fmt(bounds)}: no value satisfies them but the call is accepted (solution {o['sigma']})"))
            continue
        for k, text in r:
            fails.append((f"{k}|{kind}|{dirs}", f"{kind} T with bounds {fmt(bounds)} ({o['style']} spelling, permutation {o['perm']}): {text}"))
    return fails


def fmt(bounds):
    return "[" + ", ".join({"lower": "T >= ", "list": "list[T] >= list of ", "proto": "Pops[T] >= Box of ", "upper": "T <= "}[b["dir"]] + b["t"] for b in bounds) + "]"


def nontrivial(kind, bounds):
    if len(bounds) < 2:
        return False
    if len({b["dir"] == "upper" for b in bounds}) == 2:
        return True
    ts = [ty(b["t"]) for b in bounds]
    for x, y in itertools.combinations(ts, 2):
        if included(x, y) is False and included(y, x) is False:
            return True
    return False


# ----------------------------------------------------------------- API level


_tvs = {}


def _local_tv(kind):
    if kind not in _tvs:
        from typing import TypeVar
        _tvs[kind] = TypeVar(TVS[kind], *[universe.eval_type(c) for c in CONSTRAINTS[kind]])
    return _tvs[kind]


def api_check(kind, bounds, ctx):
    """All permutations through resolve_bounds_map.  Returns list of (key, what)."""
    tv = NS[TVS[kind]] if TVS[kind] in NS else _local_tv(kind)
    bs = []
    for b in bounds:
        val = type_from_runtime(universe.eval_type(b["t"]))
        bs.append(V.UpperBound(tv, val) if b["dir"] == "upper" else V.LowerBound(tv, val))
    extra = []
    if kind == "bound":
        extra.append(V.UpperBound(tv, type_from_runtime(NS["A"])))
    if kind in CONSTRAINTS:
        extra.append(V.IsOneOf(tv, tuple(type_from_runtime(universe.eval_type(c)) for c in CONSTRAINTS[kind])))
    results = []
    for perm in itertools.permutations(range(len(bs))):
        seq = [bs[i] for i in perm] + extra
        tv_map, errors = resolve_bounds_map({tv: seq}, ctx)
        results.append((perm, bool(errors), tv_map[tv]))
    fails = []
    dirs = "+".join(sorted(b["dir"] for b in bounds))
    if len({e for _, e, _ in results}) > 1:
        fails.append((f"order-dependent-verdict|{kind}|{dirs}", "resolve_bounds_map errors in some orders only"))
    for perm, err, sol in results:
        if err:
            continue
        r = check_solution(kind, bounds, sol)
        if r is None:
            if not has_solution(kind, bounds):
                fails.append((f"unsatisfiable-accepted|{kind}|{dirs}", f"no solution exists, solver returned {sol}"))
            continue
        for k, text in r:
            fails.append((f"{k}|{kind}|{dirs}", text))
    return fails


# ----------------------------------------------------------------- generators / shards


def bound_strategy():
    return st.builds(lambda d, t: {"dir": d, "t": t},
                     st.sampled_from(["lower", "lower", "upper", "list", "proto", "proto"]), st.sampled_from(VOCAB))


def case_strategy():
    return st.tuples(st.sampled_from(["plain", "plain", "bound", "constr", "constr-ab", "constr-ba", "constr-fi", "constr-oi"]),
                     st.lists(bound_strategy(), min_size=1, max_size=4))


def shards(tier, seed):
    n = 16
    return [{"index": i, "modules": 50 if tier == "quick" else 1500, "api": 1500 if tier == "quick" else 40000}
            for i in range(n)]


def run_shard(spec):
    col = runner.Collector(spec)
    seed = runner.mix_seed(spec["seed"], ID, spec["name"])
    checker = sut.new_checker()
    ctx = Checker()

    def handle(kind, bounds, fails, source):
        for key, what in fails:
            col.fail(key, what, {"kind": kind, "bounds": bounds}, raise_new=False)

    def make():
        @given(st.lists(case_strategy(), min_size=12, max_size=12))
        def t(cases):
            out, src = run_cases(cases, checker)
            for ci, (kind, bounds) in enumerate(cases):
                fails = judge(kind, bounds, out.get(ci, []))
                col.case(nontrivial_id=(kind, bounds) if nontrivial(kind, bounds) else None,
                         label=[f"kind:{kind}", f"n:{len(bounds)}",
                                "diagnosed" if all(o["diagnosed"] for o in out.get(ci, [])) else "accepted"],
                         sample={"kind": kind, "bounds": fmt(bounds),
                                 "observed": [(o["style"], o["perm"], o["diagnosed"], str(o["sigma"])) for o in out.get(ci, [])][:3]})
                # the verdict on a call must not depend on the other calls of the module (matches against generic
                # protocols are remembered per Checker): a few protocol cases per module are re-run alone
                if any(b["dir"] == "proto" for b in bounds) and ci % 4 == 0:
                    alone, _ = run_cases([(kind, bounds)], sut.new_checker())
                    a = sorted((o["style"], o["perm"], o["diagnosed"]) for o in alone.get(0, []))
                    b_ = sorted((o["style"], o["perm"], o["diagnosed"]) for o in out.get(ci, []))
                    if a != b_:
                        col.fail(f"neighbour-dependent-verdict|{kind}|{'+'.join(sorted(x['dir'] for x in bounds))}",
                                 f"{kind} T with bounds {fmt(bounds)}: verdicts per spelling {b_} inside a module with 11 other generic calls, "
                                 f"{a} when the module holds only this call", {"kind": kind, "bounds": bounds, "neighbours": [list(c) for c in cases]})
                for key, what in fails:
                    if col.is_known(key) or key in col.seen_keys:
                        col.fail(key, what, {"kind": kind, "bounds": bounds})
                        continue
                    again = replay({"kind": kind, "bounds": bounds})
                    if again is not None:
                        col.fail(again["key"], again["what"], again["case"])
                    else:
                        col.unreproduced += 1
        return t

    runner.drive(col, make, seed, spec["modules"], shrink=False)

    api_only = [0]

    def make_api():
        @given(case_strategy())
        def t(case):
            kind, bounds = case
            fails = api_check(kind, bounds, ctx)
            col.case(nontrivial_id=("api", kind, bounds) if nontrivial(kind, bounds) else None, label="route:api")
            if fails:
                # confirm on the real call
                out, _ = run_cases([(kind, bounds)], checker)
                pfails = judge(kind, bounds, out.get(0, []))
                pkeys = {k for k, _ in pfails}
                if not pfails:
                    api_only[0] += 1
                for key, what in pfails:
                    col.fail(key, what, {"kind": kind, "bounds": bounds}, raise_new=True)
        return t

    runner.drive(col, make_api, seed + 3, spec["api"], replay=replay)
    col.extra["api_only_disagreements"] = api_only[0]
    return col.result()


def replay_all(case):
    if case.get("neighbours"):
        cases = [(k, b) for k, b in case["neighbours"]]
        ci = next((i for i, (k, b) in enumerate(cases) if k == case["kind"] and b == case["bounds"]), None)
        if ci is None:
            return []
        batch, _ = run_cases(cases, sut.new_checker())
        alone, _ = run_cases([cases[ci]], sut.new_checker())
        a = sorted((o["style"], o["perm"], o["diagnosed"]) for o in alone.get(0, []))
        b_ = sorted((o["style"], o["perm"], o["diagnosed"]) for o in batch.get(ci, []))
        if a != b_:
            return [{"key": f"neighbour-dependent-verdict|{case['kind']}|{'+'.join(sorted(x['dir'] for x in case['bounds']))}",
                     "what": f"verdicts per spelling {b_} next to the other calls, {a} alone", "case": case}]
        return []
    out, _ = run_cases([(case["kind"], case["bounds"])], sut.new_checker())
    return [{"key": k, "what": w, "case": case} for k, w in judge(case["kind"], case["bounds"], out.get(0, []))]


def replay(case):
    for f in replay_all(case):
        return f
    return None

"""C06 - call checking: arguments against parameter types, result type."""

from __future__ import annotations

import ast
import re
import warnings

from hypothesis import given, strategies as st

from pv import member, runner, sut, universe
from pv.universe import NS

warnings.filterwarnings("ignore")

ID = "C06"
TECHNIQUE = "property-based differential testing: generated annotated callables (plain, defaults, *args/**kwargs, methods, constructors, dataclasses, generics) x literal argument tuples; verdict compared with the membership model, result compared with the executed call"
RULE = (
    "per module 60 generated callables each called ~4 times with literal arguments that bind (checked by calling "
    "the real function): plain functions with 1-3 typed parameters, defaults, *args: X, **kwargs: X, keyword-only; "
    "methods / classmethods / staticmethods; __init__ constructors; dataclasses; generic helpers over T, list[T], "
    "dict[K, V], bounded and constrained type variables, Callable[[T], U]. Oracle: (i) the call line is diagnosed "
    "(incompatible_argument / incompatible_call) <=> some argument object is not a member of the declared "
    "parameter type; (ii) the value the call returns is a member of the type inferred for the call; (iii) generic "
    "calls: accepted => every argument is a member of its parameter annotation with the type variables replaced by "
    "the solution read off the inferred return type. Non-trivial = call with >=2 typed parameters where exactly "
    "one argument decides the verdict, or a generic call (distinct by callable+call text)."
    ' Callable forms also include methods looked up on module-level (possibly falsy) literal instances and methods inherited through a subclass; constructor calls of generic classes as arguments are judged at type level (their type arguments are not statically known).'
)
ASSUMPTIONS = [
    "membership model pv/member.py; a call with an argument whose membership is Unknown is skipped",
    "bodies return a parameter or a literal inhabitant of the declared return type, so the result is of that type by construction",
]

PTYPES = ["int", "str", "float", "bool", "None", "Optional[int]", "int | str", "list[int]", "dict[str, int]",
          "tuple[int, str]", "A", "B", "E", "Literal[1, 2]", "Sequence[int]", "TD", "object", "list[str]",
          "tuple[int, ...]", "set[int]", "Optional[A]", "type[A]", "bytes", "Iterable[str]", "Mapping[str, int]",
          # unions of ten or more members (indexed lookup in pyanalyze) holding literals that are equal across types
          "Literal[0, 1, 2, 3, 4, 5, 6, 7, 8, False, True]", 'Literal[False, True, 0, 1, 2, 3, 4, 5, 6, 7, 8, "a"]', "Perm", "FSub"]

ARG_POOL = [o.src for o in universe.UNIVERSE if o.kind in ("scalar", "enum", "container", "instance", "class")]


def ty(src):
    return member.from_rt(universe.eval_type(src))


def inhabitant_srcs(tsrc, n=4):
    objs = member.inhabitants(ty(tsrc), 8)
    out = [s for s in (member.to_src(o) for o in objs) if s is not None]
    return out[:n] or ["None"]


@st.composite
def typed_arg(draw, tsrc):
    """An argument source: usually a member of the type, sometimes a near miss or a random object."""
    mode = draw(st.integers(0, 9))
    if mode < 6:
        return draw(st.sampled_from(inhabitant_srcs(tsrc)))
    if mode < 8:
        nm = [s for s in (member.to_src(o) for o in member.near_misses(ty(tsrc), 6)) if s is not None]
        if nm:
            return draw(st.sampled_from(nm))
    return draw(st.sampled_from(ARG_POOL))


@st.composite
def plain_callable(draw, i):
    """Returns dict(kind, defs (source lines), callee expr, params [(name, kind, tsrc)], generic=None)."""
    n = draw(st.integers(1, 3))
    names = ["a", "b", "c"][:n]
    types = [draw(st.sampled_from(PTYPES)) for _ in names]
    n_def = draw(st.integers(0, n - 1)) if n > 1 else draw(st.integers(0, 1)) * 0
    kw_only_from = draw(st.integers(1, n)) if draw(st.integers(0, 3)) == 0 else n
    parts, params = [], []
    odd_defaults = set()  # parameters whose default lies outside the declared type
    for k, (nm, t) in enumerate(zip(names, types)):
        if k == kw_only_from and kw_only_from < n:
            parts.append("*")
        dflt = ""
        if k >= n - n_def:
            # usually a member of the declared type; sometimes the `x: int = None` idiom or
            # another value outside the type (the default itself is not what the call is judged on,
            # but an explicitly passed equal value is)
            if draw(st.integers(0, 2)) == 0:
                dv = draw(st.sampled_from(["None", "0", '""', "()"]))
                if member.mem(eval(dv, NS), ty(t)) is not True:
                    odd_defaults.add(nm)
            else:
                dv = inhabitant_srcs(t, 1)[0]
            dflt = f" = {dv}"
        parts.append(f"{nm}: {t}{dflt}")
        params.append((nm, "ko" if k >= kw_only_from and kw_only_from < n else "pk", t, dflt[3:] if dflt else False))
    var_t = kwv_t = None
    if kw_only_from >= n and draw(st.integers(0, 3)) == 0:
        var_t = draw(st.sampled_from(["int", "str", "A"]))
        parts.append(f"*args: {var_t}")
    if draw(st.integers(0, 3)) == 0:
        kwv_t = draw(st.sampled_from(["int", "str", "A"]))
        parts.append(f"**kwargs: {kwv_t}")
    # the returned parameter must be of the declared type on every path (result check)
    ret_from = draw(st.sampled_from([nm for nm in names if nm not in odd_defaults] or names[:1]))
    if ret_from in odd_defaults:
        parts = [p.split(" = ")[0] if p.startswith(ret_from + ":") else p for p in parts]
        params = [(nm, kind, t, False if nm == ret_from else d) for (nm, kind, t, d) in params]
    ret_t = types[names.index(ret_from)]
    sig = ", ".join(parts)
    form = draw(st.sampled_from(["func", "func", "method", "classmethod", "staticmethod", "init", "dataclass", "bound-literal", "inherited"]))
    if form == "dataclass" and (var_t or kwv_t or kw_only_from < n):
        form = "func"
    if form == "func":
        defs = [f"def g{i}({sig}) -> {ret_t}:", f"    return {ret_from}"]
        callee = f"g{i}"
    elif form == "method":
        defs = [f"class K{i}:", f"    def m(self, {sig}) -> {ret_t}:", f"        return {ret_from}"]
        callee = f"K{i}().m"
    elif form == "bound-literal":
        # a method looked up on a module-level instance that pyanalyze knows literally; the instance may be falsy
        extra = draw(st.sampled_from([[], ["    def __len__(self) -> int:", "        return 0"], ["    def __bool__(self) -> bool:", "        return False"],
                                      ["    def __len__(self) -> int:", "        return 2"]]))
        kind = draw(st.sampled_from(["plain", "plain", "class", "static"]))
        deco, first = {"plain": ([], "self, "), "class": (["    @classmethod"], "cls, "), "static": (["    @staticmethod"], "")}[kind]
        defs = [f"class K{i}:"] + extra + deco + [f"    def m({first}{sig}) -> {ret_t}:", f"        return {ret_from}", f"INST{i} = K{i}()"]
        callee = f"INST{i}.m"
    elif form == "inherited":
        # the method lives in a base class and is reached through a subclass: instance, class or module-level instance
        kind = draw(st.sampled_from(["plain", "class", "static"]))
        deco, first = {"plain": ([], "self, "), "class": (["    @classmethod"], "cls, "), "static": (["    @staticmethod"], "")}[kind]
        defs = [f"class K{i}:"] + deco + [f"    def m({first}{sig}) -> {ret_t}:", f"        return {ret_from}", f"class Sub{i}(K{i}):", "    pass",
                                         f"SUB{i} = Sub{i}()"]
        callee = draw(st.sampled_from([f"Sub{i}().m", f"SUB{i}.m"] + ([f"Sub{i}.m"] if kind != "plain" else [])))
    elif form == "classmethod":
        defs = [f"class K{i}:", "    @classmethod", f"    def m(cls, {sig}) -> {ret_t}:", f"        return {ret_from}"]
        callee = f"K{i}.m"
    elif form == "staticmethod":
        defs = [f"class K{i}:", "    @staticmethod", f"    def m({sig}) -> {ret_t}:", f"        return {ret_from}"]
        callee = f"K{i}.m"
    elif form == "init":
        defs = [f"class K{i}:", f"    def __init__(self, {sig}) -> None:", f"        self.v = {ret_from}"]
        callee = f"K{i}"
        ret_t = None
    else:
        # dataclass fields carry no defaults (mutable defaults are rejected by dataclasses)
        clean = [f"    {nm}: {t}" for (nm, kind, t, has_d) in params]
        params = [(nm, kind, t, False) for (nm, kind, t, has_d) in params]
        defs = ["@dataclasses.dataclass", f"class K{i}:"] + clean
        callee = f"K{i}"
        ret_t = None
    return {"form": form, "defs": defs, "callee": callee, "params": params, "var_t": var_t, "kwv_t": kwv_t,
            "ret_t": ret_t, "generic": None}


GENERICS = [
    # (name, def lines, params [(name, annotation)], reader: inferred Ty -> {tv: Ty})
    ("ga", ["def ga(x: T, y: T) -> tuple[T]:", "    return (x,)"], [("x", "T"), ("y", "T")]),
    ("gb", ["def gb(xs: list[T]) -> tuple[T, ...]:", "    return tuple(xs)"], [("xs", "list[T]")]),
    ("gc", ["def gc(d: dict[T, U]) -> tuple[list[T], list[U]]:", "    return (list(d), list(d.values()))"], [("d", "dict[T, U]")]),
    ("gd", ["def gd(x: TB, y: TB) -> tuple[TB]:", "    return (y,)"], [("x", "TB"), ("y", "TB")]),
    ("ge", ["def ge(x: TC, y: TC) -> tuple[TC]:", "    return (x,)"], [("x", "TC"), ("y", "TC")]),
    ("gf", ["def gf(x: T, y: U) -> tuple[T, U]:", "    return (x, y)"], [("x", "T"), ("y", "U")]),
    ("gg", ["def gg(x: T, ys: list[T]) -> tuple[T]:", "    return (x,)"], [("x", "T"), ("ys", "list[T]")]),
    ("gh", ["def gh(x: Optional[T], d: T) -> tuple[T]:", "    return (d if x is None else x,)"], [("x", "Optional[T]"), ("d", "T")]),
]


def read_solution(name, inferred_ty):
    """Map type variable name -> Ty from the inferred return type, or None."""
    def members(t):
        return t[2] if t[0] == "tuple" and t[1] is tuple else None
    m = members(inferred_ty)
    if m is None:
        return None
    if name in ("ga", "gd", "ge", "gg", "gh") and len(m) == 1 and not m[0][0]:
        return {{"gd": "TB", "ge": "TC"}.get(name, "T"): m[0][1]}
    if name == "gb" and len(m) == 1 and m[0][0]:
        return {"T": m[0][1]}
    if name == "gf" and len(m) == 2:
        return {"T": m[0][1], "U": m[1][1]}
    if name == "gc" and len(m) == 2:
        a, b = m[0][1], m[1][1]
        if a[0] == "gen" and a[1] is list and b[0] == "gen" and b[1] is list:
            return {"T": a[2][0], "U": b[2][0]}
    return None


def subst(annotation, sigma):
    """Ty for an annotation source with type variables replaced."""
    if annotation in sigma:
        return sigma[annotation]
    m = re.match(r"^(list|Optional)\[(\w+)\]$", annotation)
    if m and m.group(2) in sigma:
        inner = sigma[m.group(2)]
        return ("gen", list, (inner,)) if m.group(1) == "list" else member.union([inner, ("lit", None)])
    m = re.match(r"^dict\[(\w+), (\w+)\]$", annotation)
    if m and m.group(1) in sigma and m.group(2) in sigma:
        return ("gen", dict, (sigma[m.group(1)], sigma[m.group(2)]))
    return None


@st.composite
def simple_call(draw, c):
    """Argument list text and [(arg src, param tsrc or None)] - built in parameter order so it
    always binds unless an extra is added on purpose."""
    parts, pairs = [], []
    keyword_mode = False
    unfilled = []
    for (nm, kind, t, has_d) in c["params"]:
        if has_d and draw(st.integers(0, 2)) == 0:
            keyword_mode = True  # later ones must be keywords
            if kind != "po":
                unfilled.append(t)
            continue
        a = draw(typed_arg(t))
        if has_d and isinstance(has_d, str) and draw(st.integers(0, 2)) == 0:
            a = has_d  # explicitly pass a value equal to the parameter's default
        pairs.append((a, t))
        if kind == "ko" or keyword_mode or draw(st.integers(0, 3)) == 0:
            parts.append(f"{nm}={a}")
            keyword_mode = True
        else:
            parts.append(a)
    if c["var_t"] and not keyword_mode:
        for _ in range(draw(st.integers(0, 2))):
            a = draw(typed_arg(c["var_t"]))
            parts.append(a)
            pairs.append((a, c["var_t"]))
        if draw(st.integers(0, 3)) == 0:
            # a non-literal *sequence next to explicit extra positionals
            fn, inside = draw(st.sampled_from([("seq_int", "<type:int>"), ("seq_str", "<type:str>")]))
            parts.append(f"*{fn}()")
            pairs.append((inside, c["var_t"]))
    if c["kwv_t"]:
        for k in draw(st.lists(st.sampled_from(["zz", "yy"]), max_size=2, unique=True)):
            a = draw(typed_arg(c["kwv_t"]))
            parts.append(f"{k}={a}")
            pairs.append((a, c["kwv_t"]))
        if draw(st.integers(0, 2)) == 0:
            # a non-literal **mapping next to explicit extra keywords
            fn, inside = draw(st.sampled_from([("kwmap_int", "<type:int>"), ("kwmap_str", "<type:str>")]))
            parts.append(f"**{fn}()")
            pairs.append((inside, c["kwv_t"]))
            # a mapping with unknown keys may also fill every keyword-capable parameter left unfilled
            for t in unfilled:
                pairs.append((inside, t))
    return ", ".join(parts), pairs


@st.composite
def generic_call(draw, g):
    name, defs, params = g
    pool_scalar = ["1", "True", '"a"', "1.5", "None", "A()", "B()", "C()", "E.a"]
    parts, pairs = [], []
    for nm, ann in params:
        if ann.startswith("list["):
            xs = draw(st.lists(st.sampled_from(pool_scalar), max_size=2))
            a = "[" + ", ".join(xs) + "]"
        elif ann.startswith("dict["):
            ks = draw(st.lists(st.sampled_from(['"a"', "1", "E.a"]), max_size=2, unique=True))
            a = "{" + ", ".join(f"{k}: {draw(st.sampled_from(pool_scalar))}" for k in ks) + "}"
        else:
            a = draw(st.sampled_from(pool_scalar))
        parts.append(a)
        pairs.append((a, ann))
    return ", ".join(parts), pairs


HEADER = "from typing import *\nfrom typing_extensions import *\nimport dataclasses\nfrom pv_vocab import *\n"


def pair_verdict(a, t):
    """Does the argument belong to the parameter type?  `<type:X>` stands for a non-literal source
    declared to hold X (the elements of `*seq_int()`, the values of `**kwmap_str()`): every inhabitant of
    X must belong."""
    if a.startswith("<type:"):
        ws = member.inhabitants(member.from_rt(eval(a[6:-1], NS)), 10)
        vs = [member.mem(w, ty(t)) for w in ws]
        return False if any(v is False for v in vs) else (None if any(v is None for v in vs) or not vs else True)
    v = member.mem(eval(a, NS), ty(t))
    if v is False and a.startswith(GENERIC_CTORS):
        # `Fwd({1: "a"})` is a call, typed Fwd[Any, Any]: its type arguments are not statically known.  When the
        # class itself fits (an empty instance, or one built from an inhabitant of the type, is a member) the content decides, and the property makes no claim.
        cls = NS[a.split("(")[0]]
        contents = [()] + [(o,) for o in member.inhabitants(ty(t), 8) if isinstance(o, (dict, list))]
        for args in contents:
            try:
                other = cls(*args)
            except Exception:
                continue
            if member.mem(other, ty(t)) is not False:
                return None
    return v


# constructor calls of generic classes of the vocabulary: pyanalyze types them `Cls[Any, ...]`
GENERIC_CTORS = ("Fwd(", "LS(", "Rev(", "IntKeyed(", "G(")


def judge(items, checker, col=None):
    """items: list of (callable dict, [(argtext, pairs)]).  Generic callables have c['generic']=name."""
    lines = HEADER.rstrip("\n").split("\n")
    for g in GENERICS:
        lines += g[1]
        # twin with the same parameters whose return type does not mention the type variables:
        # whether a call is accepted must not depend on the return annotation
        lines += [re.sub(r"^def (\w+)\((.*)\) -> .*:$", r"def \1_n(\2) -> int:", g[1][0]), "    return 0"]
        lines += [re.sub(r"^def (\w+)\((.*)\) -> .*:$", r"def \1_v(\2) -> None:", g[1][0]), "    pass"]
    for c, calls in items:
        if not c.get("generic"):
            lines += c["defs"]
    lines.append("def body():")
    lmap = {}
    twin_lines = {}
    for ci, (c, calls) in enumerate(items):
        for j, (argtext, pairs) in enumerate(calls):
            lines.append(f"    r{ci}_{j} = {c['callee']}({argtext})")
            lmap[len(lines)] = (ci, j)
            if c.get("generic"):
                for suffix in ("_n", "_v"):
                    lines.append(f"    {c['callee']}{suffix}({argtext})")
                    twin_lines.setdefault(len(lines) - (1 if suffix == "_n" else 2), []).append((len(lines), suffix))
    src = "\n".join(lines) + "\n"
    res = sut.check_source(src, checker=checker, collect_values=True, keep_module=True)
    try:
        if res.raised is not None:
            raise res.raised
        mod = res.module
        diag, other = {}, {}
        twin_diag = {}
        all_twin = {tl for ts in twin_lines.values() for tl, _ in ts}
        for d in res.diags:
            if d.lineno in all_twin and d.code in ("incompatible_argument", "incompatible_call"):
                twin_diag.setdefault(d.lineno, []).append(d.description)
            if d.lineno in lmap:
                if d.code in ("incompatible_argument", "incompatible_call"):
                    diag.setdefault(d.lineno, []).append(d.description)
                elif d.code == "internal_error":
                    other[d.lineno] = d.description[-200:]
        inferred = {}
        for n in ast.walk(res.tree):
            if isinstance(n, ast.Assign) and n.lineno in lmap:
                inferred[n.lineno] = res.values_of(n.value)
        fails = []
        ns = dict(vars(mod))
        for line, (ci, j) in lmap.items():
            c, calls = items[ci]
            argtext, pairs = calls[j]
            call_src = f"{c['callee']}({argtext})"
            if line in other:
                fails.append((f"internal-error|{c['form'] if not c.get('generic') else 'generic'}", f"`{call_src}`: {other[line]}", c, argtext, pairs))
                continue
            try:
                result = eval(call_src, ns)
                bound = True
            except TypeError as e:
                bound, result = False, e
            except Exception as e:
                bound, result = None, e
            if bound is not True:
                if col is not None:
                    col.discarded += 1
                continue
            diagnosed = line in diag
            form = c["form"] if not c.get("generic") else "generic:" + c["generic"]
            if not c.get("generic"):
                verdicts = []
                for a, t in pairs:
                    verdicts.append((a, t, pair_verdict(a, t)))
                if any(v is None for _, _, v in verdicts):
                    if col is not None:
                        col.skipped += 1
                    continue
                bad = [(a, t) for a, t, v in verdicts if v is False]
                nontriv = len(pairs) >= 2 and len(bad) <= 1
                if col is not None:
                    col.case(nontrivial_id=(c["defs"][-2] if len(c["defs"]) > 1 else "", call_src) if nontriv else None,
                             label=[f"form:{form}", "agree-ok" if not bad and not diagnosed else "agree-diag" if bad and diagnosed else ("FP" if diagnosed else "FN")],
                             sample="\n".join(c["defs"]) + f"\n{call_src}")
                if bool(bad) != diagnosed:
                    if diagnosed:
                        fails.append((f"FP|{form}|{skeleton(diag[line][0])}",
                                      f"{' / '.join(c['defs'][:3])}: `{call_src}` is diagnosed ({diag[line][0]}) although every argument belongs to its parameter type",
                                      c, argtext, pairs))
                    else:
                        a, t = bad[0]
                        o = eval(a, NS) if not a.startswith("<type:") else eval(a[6:-1], NS)()
                        fails.append((f"FN|{form}|param:{ctor(t)}|arg:{type(o).__name__}",
                                      f"{' / '.join(c['defs'][:3])}: `{call_src}` is not diagnosed although {a} is not a member of {t}", c, argtext, pairs))
                    continue
            else:
                if col is not None:
                    col.case(nontrivial_id=("generic", call_src), label=[f"form:{form}", "accepted" if not diagnosed else "diagnosed"],
                             sample=call_src)
            if c.get("generic"):
                twin_bad = False
                for tl, suffix in twin_lines.get(line, []):
                    if (tl in twin_diag) != diagnosed:
                        fails.append((f"verdict-depends-on-return|{c['generic']}{suffix}",
                                      f"`{call_src}` is {'diagnosed' if diagnosed else 'accepted'} but the same call of the twin "
                                      f"`{c['callee']}{suffix}` (same parameters, return type without type variables) is "
                                      f"{'diagnosed' if tl in twin_diag else 'accepted'}: {(twin_diag.get(tl) or diag.get(line) or [''])[0][:200]}",
                                      c, argtext, pairs))
                        twin_bad = True
                        break
                if twin_bad:
                    continue
            if diagnosed:
                continue
            vals = inferred.get(line) or []
            if not vals:
                continue
            u = sut.union_of(vals)
            ity = member.from_value(u)
            if c.get("ret_t") is None and not c.get("generic"):
                # constructor: result is an instance of the class defined in the analysed module
                continue
            if member.mem(result, ity) is False:
                fails.append((f"result-escapes|{form}|inferred:{type(u).__name__}",
                              f"`{call_src}` returns {result!r} which is not in the inferred type {u}", c, argtext, pairs))
                continue
            if c.get("generic") and not member.has_top_any(ity):
                sigma = read_solution(c["generic"], ity)
                if sigma is None or any(member.has_top_any(s) or member.contains_unknown(s) for s in sigma.values()):
                    continue
                for a, ann in pairs:
                    target = subst(ann, sigma)
                    if target is None:
                        continue
                    o = eval(a, NS)
                    if member.mem(o, target) is False:
                        fails.append((f"solution-rejects-argument|{c['generic']}|{ann}",
                                      f"`{call_src}` is accepted with {u} but argument {a} is not a member of {ann} under that solution", c, argtext, pairs))
                        break
        return fails
    finally:
        sut.forget_module(res.module)


def ctor(t):
    return re.split(r"[\[ ]", t)[0]


def skeleton(msg):
    msg = re.sub(r"Literal\[[^\]]*\]", "Literal[_]", msg)
    msg = re.sub(r"'[^']*'", "'_'", msg)
    msg = re.sub(r"for \w+:", "for _:", msg)
    msg = re.sub(r"expected .* but got .*", "expected _ but got _", msg)
    return msg[:80]


@st.composite
def item_strategy(draw, i):
    if draw(st.integers(0, 4)) == 0:
        g = draw(st.sampled_from(GENERICS))
        c = {"generic": g[0], "callee": g[0], "form": "generic", "defs": g[1], "params": [], "ret_t": "generic"}
        calls = [draw(generic_call(g)) for _ in range(4)]
        return c, calls
    c = draw(plain_callable(i))
    calls = [draw(simple_call(c)) for _ in range(4)]
    return c, calls


def shards(tier, seed):
    n = 16
    return [{"index": i, "modules": 25 if tier == "quick" else 600} for i in range(n)]


def run_shard(spec):
    col = runner.Collector(spec)
    seed = runner.mix_seed(spec["seed"], ID, spec["name"])
    checker = sut.new_checker()

    def make():
        @given(st.data())
        def t(data):
            items = [data.draw(item_strategy(i)) for i in range(40)]
            for key, what, c, argtext, pairs in judge(items, checker, col):
                case = {"c": c, "argtext": argtext, "pairs": [list(p) for p in pairs]}
                if col.is_known(key) or key in col.seen_keys:
                    col.fail(key, what, case)
                    continue
                again = replay(case)
                if again is not None:
                    col.fail(again["key"], again["what"], again["case"])
                else:
                    col.unreproduced += 1
        return t

    runner.drive(col, make, seed, spec["modules"], shrink=False)
    return col.result()


def replay_all(case):
    c = dict(case["c"])
    c["params"] = [tuple(p) for p in c.get("params", [])]
    fails = judge([(c, [(case["argtext"], [tuple(p) for p in case["pairs"]])])], sut.new_checker())
    return [{"key": k, "what": w, "case": case} for k, w, *_ in fails]


def replay(case):
    for f in replay_all(case):
        return f
    return None

"""C10 - diagnostics are deterministic and independent of prior checks."""

from __future__ import annotations

import json
import os
import re
import shutil
import subprocess
import sys
import tempfile
import warnings

from hypothesis import given, strategies as st
from hypothesis.stateful import RuleBasedStateMachine, invariant, rule, run_state_machine_as_test

from pv import corpus, gen_prog, runner, sut
from pv.c10_child import normalise, render

warnings.filterwarnings("ignore")

ID = "C10"
TECHNIQUE = "metamorphic property-based testing: the same generated program checked in fresh subprocesses under different PYTHONHASHSEED values / heap layouts, and inside a long-lived Checker after generated histories (Hypothesis RuleBasedStateMachine); renders must be identical"
RULE = (
    "programs = order-sensitive templates (several unexpected keyword arguments, several missing %(key)s keys, "
    "unions built through or-conditions and branch merges, TypedDict / Protocol mismatches listing members, "
    "reveal_type of merged values) plus corpus snippets under AST mutation plus generated typed programs. "
    "(a) batches of 30 programs are checked by fresh subprocesses under PYTHONHASHSEED 0..k with seed-dependent "
    "heap ballast, one fresh Checker per program; the sorted multiset of (code, line, col, full message) with "
    "module names and addresses normalised must be identical in all children. (b) a state machine owns one "
    "long-lived Checker; each step checks a program from a pool (repeats allowed) and compares its render with the "
    "fresh-checker baseline. Non-trivial = program whose render has a message listing >=2 names or a union of >=2 "
    "members (distinct by source)."
    ' Templates include `freed-signature` (nested unannotated defs whose signatures die during the check followed by decorated unannotated functions).'
)
ASSUMPTIONS = [
    "object addresses (0x...) and the random module names of in-memory test modules are normalised before comparing",
    "the order of the list of diagnostics is not part of the property (compared as a sorted multiset)",
    "memory-layout dependence is only perturbed (hash seed + ballast), not enumerated",
]

ROOT = os.path.dirname(os.path.dirname(os.path.dirname(os.path.abspath(__file__))))

# ----------------------------------------------------------------- order-sensitive templates

NAMES = ["alpha", "beta", "gamma", "delta", "eps", "zeta", "eta", "theta"]


@st.composite
def template_program(draw, kinds=None):
    kind = draw(st.sampled_from(kinds)) if kinds else draw(st.sampled_from(["kwargs", "percent-keys", "or-union", "merge-union", "typeddict", "protocol", "in-union",
                                 "set-literal", "format-keys", "dict-union", "generic-protocol", "generic-protocol", "collect", "collect", "global-rebind", "use-builtin", "shared-generic", "freed-signature", "freed-signature"]))
    names = draw(st.lists(st.sampled_from(NAMES), min_size=3, max_size=6, unique=True))
    head = "from typing import *\nfrom typing_extensions import *\n"
    if kind == "generic-protocol":
        # verdicts about a generic protocol depend on its type arguments: a cache keyed too
        # coarsely makes the result depend on what was checked before
        proto = draw(st.sampled_from(["SupportsAbs", "SupportsRound", "Iterable", "Container"]))
        t = draw(st.sampled_from(["int", "str", "float", "bytes"]))
        u = draw(st.sampled_from(["int", "str", "float", "list[int]", "list[str]"]))
        return head + f"def want(x: {proto}[{t}]) -> None: ...\ndef g(i: {u}):\n    want(i)\n"
    if kind == "generic-union-order":
        # the same generic classes with the same union arguments written in another order by every program of a pool:
        # whatever is remembered per (class, type arguments) must not carry one program's spelling into another
        ts = draw(st.permutations(["int", "str", "bytes"]))
        us = draw(st.permutations(["float", "None", "bytes"]))
        a, b = " | ".join(ts[:2]), " | ".join(us)
        return head + (f"def want(x: complex) -> None: ...\ndef g(xs: list[{a}], d: dict[str, {b}], t: tuple[{a}, ...], s: set[{a}]):\n"
                       "    want(xs[0])\n    want(xs.pop())\n    for x in xs:\n        want(x)\n    want(d['k'])\n    want(d.get('k'))\n"
                       "    want(t[0])\n    want(next(iter(s)))\n    want(next(iter(xs)))\n    return d.popitem()\n")
    if kind == "freed-signature":
        # objects that die during a check (signatures of nested functions, created and dropped with the enclosing
        # scope) followed by callables whose signatures are created afterwards: anything remembered by id() of a
        # dead object can be picked up by an unrelated one
        lits = ["1", "'s'", "1.5", "b'x'", "[1]", "(1, 2)", "{1: 2}", "{1}", "None"]
        n = draw(st.integers(6, 16))
        first = draw(st.integers(0, len(lits) - 1))
        deco = draw(st.sampled_from(["deco", "functools.wraps(len)", "functools.lru_cache(None)"]))
        parts = [head + "import functools\ndef deco(f):\n    return f\n"]
        for i in range(n):
            lit = lits[(first + i) % len(lits)]
            parts.append(f"def outer{i}():\n    def inner(y):\n        return {lit}\n    return None\n"
                         f"@{deco}\ndef helper{i}(x):\n    return x\n"
                         f"def use{i}():\n    reveal_type(helper{i}(1))\n    return len(helper{i}(1))\n")
        return "".join(parts)
    if kind == "shared-generic":
        # generic typeshed functions whose parameters are structural protocols over a shared type variable
        # (divmod: SupportsDivMod[T, R] and T; max / sorted: SupportsRichComparison): verdicts cached per
        # protocol must not pick up bounds from earlier calls
        ts = draw(st.lists(st.sampled_from(["int", "bool", "float", "str", "bytes", "list[int]"]), min_size=2, max_size=2))
        return head + (f"def g(a: {ts[0]}, b: {ts[1]}):\n    reveal_type(divmod(a, b))\n    reveal_type(max(a, b))\n"
                       f"    reveal_type(sorted([a, b]))\n    reveal_type(abs(a))\n    reveal_type(round(a, 1))\n")
    if kind in ("global-rebind", "use-builtin"):
        # state that must not outlive a check: a function that rebinds a global / builtin name through
        # `global`, and programs whose diagnostics mention builtins
        bn = draw(st.lists(st.sampled_from(["len", "max", "abs", "sorted", "repr", "fresh_name_zz", "other_zz"]), min_size=1, max_size=3, unique=True))
        if kind == "use-builtin":
            body = "".join(f"    reveal_type({n})\n" for n in bn if not n.endswith("_zz")) or "    reveal_type(len)\n"
            return head + "def g():\n" + body + "    reveal_type(len('ab'))\n    reveal_type(abs(-1))\n"
        lit = draw(st.sampled_from(["1", "'s'", "None", "[1]"]))
        decl = "".join(f"    global {n}\n    {n} = {lit}\n" for n in bn)
        return head + "def g():\n" + decl + "def h():\n" + "".join(f"    reveal_type({n})\n" for n in bn)
    if kind == "collect":
        # surplus positional / keyword arguments of several types collected into *args / **kwargs, alone and
        # together with *sequence / **mapping arguments; the collected type appears in the mismatch message
        lits = draw(st.lists(st.sampled_from(["1", "2.0", "None", "b''", "'s'", "[1]", "(1,)", "{1}", "object()"]), min_size=2, max_size=5, unique=True))
        at, kt = draw(st.sampled_from(["int", "str", "bytes", "list[int]"])), draw(st.sampled_from(["int", "str", "bytes", "list[int]"]))
        et, sq = draw(st.sampled_from(["bytes", "int", "str", "float"])), draw(st.sampled_from(["bytes", "int", "str", "float"]))
        kws = ", ".join(f"{n}={l}" for n, l in zip(names, lits))
        pos = ", ".join(lits)
        return head + (f"def collect(x: int, *args: {at}, **kwargs: {kt}) -> None: ...\n"
                       f"def only_kw(x: int, **kwargs: {kt}) -> None: ...\n"
                       f"def g(extra: dict[str, {et}], seq: list[{sq}]) -> None:\n"
                       f"    collect(1, {kws})\n    collect(1, {kws}, **extra)\n    only_kw(1, {kws}, **extra)\n"
                       f"    collect(1, {pos})\n    collect(1, {pos}, *seq)\n    collect(1, {pos}, *seq, {kws}, **extra)\n")
    if kind == "kwargs":
        return head + "def f(a: int) -> None: ...\ndef g():\n    f(1, " + ", ".join(f"{n}=1" for n in names) + ")\n"
    if kind == "percent-keys":
        return head + "def g():\n    return '" + " ".join(f"%({n})s" for n in names) + "' % {}\n"
    if kind == "format-keys":
        return head + "def g():\n    return '" + " ".join(f"{{{n}}}" for n in names) + "'.format(" + ", ".join(f"{n}x=1" for n in names) + ")\n"
    types = draw(st.lists(st.sampled_from(["int", "str", "bytes", "float", "None", "list", "tuple", "dict", "set"]),
                          min_size=3, max_size=5, unique=True))
    if kind == "or-union":
        cond = " or ".join(f"isinstance(x, {t})" if t != "None" else "x is None" for t in types)
        return head + f"def g(x: object):\n    if {cond}:\n        reveal_type(x)\n    else:\n        reveal_type(x)\n"
    if kind == "in-union":
        lits = draw(st.lists(st.sampled_from(["1", "2", "'a'", "'b'", "None", "3.5", "b'x'"]), min_size=3, max_size=5, unique=True))
        return head + f"def g(x: object):\n    if x in ({', '.join(lits)}):\n        reveal_type(x)\n    if x == {lits[0]} or x == {lits[1]} or x == {lits[2]}:\n        reveal_type(x)\n"
    if kind == "merge-union":
        body = "".join(f"    {'if' if i == 0 else 'elif'} c == {i}:\n        v = {lit}\n" for i, lit in enumerate(["1", "'a'", "None", "b'x'", "2.5", "[1]", "(1,)"][:len(types) + 1]))
        return head + f"def g(c: int):\n{body}    else:\n        v = object()\n    reveal_type(v)\n    return v\n"
    if kind == "typeddict":
        fields = "".join(f"    {n}: int\n" for n in names)
        return head + f"class TD(TypedDict):\n{fields}def want(x: TD) -> None: ...\ndef g():\n    want({{}})\n    want({{'zz': 1, 'yy': 2, 'xx': 3}})\n"
    if kind == "protocol":
        members = "".join(f"    def {n}(self) -> int: ...\n" for n in names)
        return head + f"class P(Protocol):\n{members}class Impl: pass\ndef want(x: P) -> None: ...\ndef g():\n    want(Impl())\n    want(1)\n"
    if kind == "set-literal":
        return head + "def g():\n    s = {" + ", ".join(repr(n) for n in names) + "}\n    reveal_type(s)\n    for x in s:\n        reveal_type(x)\n"
    return head + "def g(c: int):\n    d = {" + ", ".join(f"{n!r}: {i}" for i, n in enumerate(names)) + "}\n    e = d if c else {" + ", ".join(f"{n!r}: 's'" for n in reversed(names)) + "}\n    reveal_type(e)\n    reveal_type(e.get('alpha'))\n"


def stable_source(src):
    """Programs that read the clock / random sources print different values on every run."""
    import re

    return not re.search(r"\b(datetime|time|random|uuid|getpid|secrets|tempfile|urandom)\b", src)


def program_strategy():
    typed = st.lists(gen_prog.function("f0", 2), min_size=1, max_size=2).map(
        lambda fs: gen_prog.HEADER + "\n\n".join(f["src"].replace("def f0(", f"def f{i}(") for i, f in enumerate(fs)) + "\n")
    return st.one_of(
        template_program(), template_program(),
        corpus.program_strategy(2).map(lambda t: t[1]).filter(stable_source),
        typed,
    )


def nontrivial(rendered):
    import re

    for code, line, col, msg in rendered:
        if " | " in msg or re.search(r"(\w+, ){1,}\w+", msg.split("\n")[1] if "\n" in msg else msg):
            return True
    return False


# ----------------------------------------------------------------- (a) across processes


def run_children(programs, seeds, fresh_checker=True):
    d = tempfile.mkdtemp(prefix="pv_c10_")
    try:
        batch = os.path.join(d, "batch.json")
        json.dump({"programs": [{"src": s} for s in programs], "fresh_checker": fresh_checker}, open(batch, "w"))
        procs = []
        for hs in seeds:
            out = os.path.join(d, f"out{hs}.json")
            env = dict(os.environ, PYTHONHASHSEED=str(hs))
            env["PYTHONPATH"] = os.pathsep.join([os.environ.get("PV_REPO", "/repo"), ROOT, env.get("PYTHONPATH", "")])
            procs.append((hs, out, subprocess.Popen([sys.executable, "-m", "pv.c10_child", batch, out], cwd=ROOT, env=env,
                                                    stdout=subprocess.DEVNULL, stderr=subprocess.DEVNULL)))
        results = {}
        for hs, out, p in procs:
            p.wait(timeout=600)
            results[hs] = json.load(open(out)) if os.path.exists(out) else None
        return results
    finally:
        shutil.rmtree(d, ignore_errors=True)


def skeleton(msg):
    """Message skeleton: the text before the first quote plus the shape of the quoted payload."""
    import re

    first = [l for l in msg.split("\n") if l.strip()][0] if msg.strip() else ""
    head = re.split(r"['\"]", first, 1)[0].strip()
    head = re.sub(r"\b\d+\b", "N", head)[:50]
    shape = []
    if re.search(r"Literal\[\{|\{'", first):
        shape.append("set-or-dict-literal")
    elif "Literal[" in first and "," in first:
        shape.append("literal-union")
    if " | " in first:
        shape.append("union")
    return head + ("|" + "+".join(shape) if shape else "")


def compare_children(programs, results, col=None):
    fails = []
    seeds = sorted(results)
    if any(results[s] is None for s in seeds):
        raise RuntimeError("a C10 child produced no output")
    for i, src in enumerate(programs):
        per = {s: results[s][i] for s in seeds}
        if any("error" in r for r in per.values()):
            if col is not None:
                col.discarded += 1
            continue
        base = per[seeds[0]]["render"]
        if col is not None:
            col.case(nontrivial_id=src if nontrivial(base) else None, label="route:hashseed", sample=src if nontrivial(base) else None)
        for s in seeds[1:]:
            other = per[s]["render"]
            if other != base:
                diff_a = [x for x in base if x not in other]
                diff_b = [x for x in other if x not in base]
                a = diff_a[0] if diff_a else ["", 0, 0, ""]
                b = diff_b[0] if diff_b else ["", 0, 0, ""]
                fails.append((f"seed|{a[0] or b[0]}|{skeleton(a[3] or b[3])}",
                              f"PYTHONHASHSEED={seeds[0]} vs {s}: {a[0]} at line {a[1]}: {first_line(a[3])!r} vs {first_line(b[3])!r}", src))
                break
    return fails


def first_line(msg):
    ls = [l for l in msg.split("\n") if l.strip()]
    return ls[0][:200] if ls else ""


# ----------------------------------------------------------------- (b) histories


def fresh_render(src):
    res = sut.check_source(src)
    if res.raised is not None:
        return None
    return render(res.diags)


def isolated_renders(programs):
    """Render of each program checked alone in its own fresh process (PYTHONHASHSEED=0): the reference
    that no earlier check in the same process can have influenced."""
    d = tempfile.mkdtemp(prefix="pv_c10_iso_")
    try:
        procs = []
        for i, src in enumerate(programs):
            batch, out = os.path.join(d, f"b{i}.json"), os.path.join(d, f"o{i}.json")
            json.dump({"programs": [{"src": src}], "fresh_checker": True}, open(batch, "w"))
            env = dict(os.environ, PYTHONHASHSEED="0")
            env["PYTHONPATH"] = os.pathsep.join([os.environ.get("PV_REPO", "/repo"), ROOT, env.get("PYTHONPATH", "")])
            procs.append((out, subprocess.Popen([sys.executable, "-m", "pv.c10_child", batch, out], cwd=ROOT, env=env,
                                                stdout=subprocess.DEVNULL, stderr=subprocess.DEVNULL)))
        res = []
        for out, p in procs:
            p.wait(timeout=600)
            r = json.load(open(out))[0] if os.path.exists(out) else {"error": "no output"}
            res.append(r.get("render"))
        return res
    finally:
        shutil.rmtree(d, ignore_errors=True)


def make_machine(pool, col, found):
    class History(RuleBasedStateMachine):
        def __init__(self):
            super().__init__()
            self.checker = sut.new_checker()
            self.history = []

        @rule(i=st.integers(0, len(pool) - 1))
        def check(self, i):
            src, baseline = pool[i]
            res = sut.check_source(src, checker=self.checker)
            got = render(res.diags) if res.raised is None else None
            self.history.append(i)
            col.case(nontrivial_id=("hist", tuple(self.history[-3:]), i) if len(self.history) > 1 else None, label="route:history")
            if got != baseline:
                diff_a = [x for x in (baseline or []) if x not in (got or [])]
                diff_b = [x for x in (got or []) if x not in (baseline or [])]
                a = diff_a[0] if diff_a else ["", 0, 0, ""]
                b = diff_b[0] if diff_b else ["", 0, 0, ""]
                strip = lambda r: [[x[0], x[1], x[2], re.sub(r" \(Protocol with members [^)]*\)", "", x[3])] for x in (r or [])]
                key = f"history|{a[0] or b[0]}|{skeleton(a[3] or b[3])}"
                if strip(got) == strip(baseline):
                    # the only difference: `X (Protocol with members ...)` printed or not (TypedValue.__str__
                    # reads a lazily filled per-instance cache)
                    key = "history|protocol-members-suffix-depends-on-earlier-checks"
                failure = {"key": key,
                           "what": f"after history of {len(self.history) - 1} other checks the render differs from the render in a fresh process: "
                                   f"{first_line(a[3])!r} vs {first_line(b[3])!r}",
                           "case": {"history": [pool[j][0] for j in self.history]}}
                if not col.is_known(failure["key"]) and failure["key"] not in col.seen_keys:
                    found.append(failure)
                    raise AssertionError(failure["key"])

    return History


# ----------------------------------------------------------------- shards


def union_order_pairs(col):
    """Two programs that use the same generic classes with the same union arguments written in different orders,
    checked one after the other with ONE Checker; the second must render exactly as with a Checker of its own
    (both renders are made in this process, so nothing outside the Checker can differ)."""
    import itertools

    fails = []
    orders = list(itertools.permutations(["int", "str", "bytes"], 2))
    for o1, o2 in itertools.permutations(orders, 2):
        if set(o1) != set(o2):
            continue
        progs = []
        for o in (o1, o2):
            a = " | ".join(o)
            b = " | ".join(reversed(["float", "None"] + list(o[:1])))
            progs.append("from typing import *\n"
                         f"def want(x: complex) -> None: ...\ndef g(xs: list[{a}], d: dict[str, {b}], t: tuple[{a}, ...], s: set[{a}]):\n"
                         "    want(xs[0])\n    want(xs.pop())\n    for x in xs:\n        want(x)\n    want(d['k'])\n    want(d.get('k'))\n"
                         "    want(t[0])\n    want(next(iter(s)))\n    want(next(iter(xs)))\n    return d.popitem()\n")
        shared = sut.new_checker()
        sut.check_source(progs[0], checker=shared)
        after = [tuple(x) for x in render(sut.check_source(progs[1], checker=shared).diags)]
        own = [tuple(x) for x in render(sut.check_source(progs[1], checker=sut.new_checker()).diags)]
        col.case(nontrivial_id=("union-order-pair", o1, o2), label=["route:union-order-pair"])
        if after != own:
            diff = next((x, y) for x, y in zip(after, own) if x != y)
            fails.append(("history|union-order-pair", f"a program using list[{' | '.join(o2)}] checked after one using list[{' | '.join(o1)}] with the same Checker "
                          f"renders {str(diff[0][-1])[:160]!r}; with a Checker of its own {str(diff[1][-1])[:160]!r}", {"union_order_pair": [progs[0], progs[1]]}))
            break
    return fails


def shared_generic_sequence(col):
    """Every `shared-generic` probe (divmod / max / sorted / abs / round over all ordered pairs of six argument types)
    checked one after the other with ONE Checker, forwards and backwards; each render must equal the render with a
    Checker of its own.  Deterministic counterpart of the random history pools for state kept per protocol match."""
    fails = []
    types = ["int", "bool", "float", "str", "bytes", "list[int]"]
    head = "from typing import *\nfrom typing_extensions import *\n"
    progs = [head + (f"def g(a: {a}, b: {b}):\n    reveal_type(divmod(a, b))\n    reveal_type(max(a, b))\n"
                     f"    reveal_type(sorted([a, b]))\n    reveal_type(abs(a))\n    reveal_type(round(a, 1))\n") for a in types for b in types]
    own = [[tuple(x) for x in render(sut.check_source(p, checker=sut.new_checker()).diags)] for p in progs]
    for order_name, order in (("forwards", list(range(len(progs)))), ("backwards", list(reversed(range(len(progs)))))):
        shared = sut.new_checker()
        for i in order:
            got = [tuple(x) for x in render(sut.check_source(progs[i], checker=shared).diags)]
            col.case(nontrivial_id=("shared-generic-sequence", order_name, i), label=["route:shared-generic-sequence"])
            if got != own[i]:
                strip = lambda r: [tuple(re.sub(r" \(Protocol with members [^)]*\)", "", str(y)) for y in x) for x in r]
                if strip(got) == strip(own[i]):
                    col.excluded_known += 1  # the listed protocol-members-suffix finding
                    continue
                diff = next(((x, y) for x, y in zip(got, own[i]) if x != y), (got[-1:] or [("",)], own[i][-1:] or [("",)]))
                fails.append(("history|shared-generic-sequence", f"probe {i} ({progs[i].splitlines()[2]}) checked {order_name} in the sequence of all probes "
                              f"renders {str(diff[0][-1])[:140]!r}; with a Checker of its own {str(diff[1][-1])[:140]!r}",
                              {"shared_generic_sequence": order_name, "index": i}))
                return fails
    return fails


def shards(tier, seed):
    k = 4 if tier == "quick" else 12
    out = [{"mode": "seeds", "index": i, "batches": 2 if tier == "quick" else 30, "k": k} for i in range(8)]
    out += [{"mode": "history", "index": i, "machines": 12 if tier == "quick" else 300, "steps": 25 if tier == "quick" else 50} for i in range(8)]
    out.append({"mode": "union-order-pairs"})
    return out


def run_shard(spec):
    import hypothesis

    col = runner.Collector(spec)
    seed = runner.mix_seed(spec["seed"], ID, spec["name"])
    if spec["mode"] == "union-order-pairs":
        for key, what, case in union_order_pairs(col) + shared_generic_sequence(col):
            col.fail(key, what, case)
        return col.result()
    if spec["mode"] == "seeds":
        def make():
            @given(st.lists(program_strategy(), min_size=20, max_size=20))
            def t(programs):
                results = run_children(programs, list(range(spec["k"] + 1)))
                for key, what, src in compare_children(programs, results, col):
                    col.fail(key, what, {"src": src, "seeds": spec["k"]})
            return t
        runner.drive(col, make, seed, spec["batches"], shrink=False)
        return col.result()

    # histories: pool drawn once per shard
    pool_holder = []

    @hypothesis.seed(seed)
    @runner.hyp_settings(8, shrink=False)
    @given(st.lists(program_strategy(), min_size=9, max_size=9),
           st.lists(template_program(kinds=["global-rebind", "use-builtin", "generic-protocol", "shared-generic", "shared-generic"]),
                    min_size=5, max_size=5))
    def draw_pool(ps, probes):
        # every pool holds a few programs that write or read state shared between checks
        pool_holder.append(list(ps) + list(probes))
    draw_pool()
    # Hypothesis starts with the simplest example (twelve copies of one program): keep the most varied draw
    pool_holder.sort(key=lambda ps: -len(set(ps)))
    pool = []
    srcs = list(dict.fromkeys(pool_holder[0]))
    # baselines come from one fresh process per program (twice: the reference itself must be stable), so that
    # state leaking between checks inside this process cannot contaminate them
    first, second = isolated_renders(srcs), isolated_renders(srcs)
    for src, b, b2 in zip(srcs, first, second):
        if b is not None and b == b2:
            pool.append((src, b))
    col.extra["history_pool_programs"] = col.extra.get("history_pool_programs", 0) + len(pool)
    if len(pool) < 2:
        return col.result()
    found = []
    machine = make_machine(pool, col, found)
    try:
        run_state_machine_as_test(
            hypothesis.seed(seed)(machine),
            settings=runner.hyp_settings(spec["machines"], shrink=True, stateful_step_count=spec["steps"]),
        )
    except AssertionError:
        pass
    except Exception:
        if not found:
            raise
    for f in found[-1:]:
        col.fail(f["key"], f["what"], f["case"])
    return col.result()


def replay_all(case):
    if "shared_generic_sequence" in case:
        col = runner.Collector({})
        return [{"key": k, "what": w, "case": c} for k, w, c in shared_generic_sequence(col)]
    if "union_order_pair" in case:
        p0, p1 = case["union_order_pair"]
        shared = sut.new_checker()
        sut.check_source(p0, checker=shared)
        after = [tuple(x) for x in render(sut.check_source(p1, checker=shared).diags)]
        own = [tuple(x) for x in render(sut.check_source(p1, checker=sut.new_checker()).diags)]
        if after != own:
            diff = next((x, y) for x, y in zip(after, own) if x != y)
            return [{"key": "history|union-order-pair", "what": f"{str(diff[0][-1])[:160]!r} after the first program, {str(diff[1][-1])[:160]!r} with a Checker of its own", "case": case}]
        return []
    if "history" in case:
        checker = sut.new_checker()
        srcs = case["history"]
        last = srcs[-1]
        baseline = isolated_renders([last])[0]
        got = None
        for s in srcs:
            res = sut.check_source(s, checker=checker)
            got = render(res.diags) if res.raised is None else None
        if got != baseline:
            diff_a = [x for x in (baseline or []) if x not in (got or [])]
            diff_b = [x for x in (got or []) if x not in (baseline or [])]
            a = diff_a[0] if diff_a else ["", 0, 0, ""]
            b = diff_b[0] if diff_b else ["", 0, 0, ""]
            strip = lambda r: [[x[0], x[1], x[2], re.sub(r" \(Protocol with members [^)]*\)", "", x[3])] for x in (r or [])]
            key = f"history|{a[0] or b[0]}|{skeleton(a[3] or b[3])}"
            if strip(got) == strip(baseline):
                key = "history|protocol-members-suffix-depends-on-earlier-checks"
            return [{"key": key, "what": f"{first_line(a[3])!r} vs {first_line(b[3])!r}", "case": case}]
        return []
    results = run_children([case["src"]], list(range(int(case.get("seeds", 6)) + 1)))
    return [{"key": k, "what": w, "case": case} for k, w, _ in compare_children([case["src"]], results)]


def replay(case):
    for f in replay_all(case):
        return f
    return None

"""C13 - static and runtime views of declarations agree."""

from __future__ import annotations

import ast
import re
import warnings

from hypothesis import given, strategies as st

from pv import runner, sut, universe
from pv.props import c05, c06
from pv.universe import NS

warnings.filterwarnings("ignore")

ID = "C13"
TECHNIQUE = "property-based testing of a commuting diagram: the same generated annotation / def header is interpreted through the visitor (source), a string annotation, `from __future__ import annotations`, type_from_runtime(object) and type_from_runtime(string); all routes must yield equal Values / signatures, and a call must be judged the same in the defining and in an importing module"
RULE = (
    "shadowing: classes named like builtins used in quoted and unquoted annotations, judged from the defining and an importing module; "
    "attribute declarations: for every annotation T of the depth-1 list, a class with attributes declared T, ClassVar[T], Final[T], typing.ClassVar[T], typing_extensions.Final[T] is read through an instance in four routes (class in the checked module, annotations quoted, class imported, class imported from a module with `from __future__ import annotations`); every value must equal the plain T of the checked module. "
    "annotation expressions E from the typing grammar (classes, Optional/Union/|, generics old and new style, "
    "tuple forms, Literal, type[], Callable[[...], R] / Callable[..., R], Annotated, NewType, TypedDict, Protocol, "
    "TypeVars; depth <= 3): the Value of parameter p in `def f(p: E)` seen by the visitor must equal the Value "
    "for `p: \"E\"`, for the same under `from __future__ import annotations`, type_from_runtime(eval(E)) and "
    "type_from_runtime(\"E\", globals). def headers over all parameter kinds / defaults / annotations: "
    "Checker.get_signature(function object) must equal, parameter by parameter and in the return, the signature "
    "the visitor builds for the same def nested in another function. Calls to generated typed callables get the "
    "same diagnostics inside the defining module and in a module importing the callable. Non-trivial = E of depth "
    ">= 2 or using a tuple / Callable / Annotated form; headers with >= 2 parameter kinds (distinct by text)."
    ' Default values include objects with unusual equality (equal to everything, NaN, identity-only sentinel, unhashable list, NotImplemented, enum member); an exception while deriving a signature is a disagreement.'
)
ASSUMPTIONS = [
    "Values are compared with == and, failing that, by their string form (TypeVar identity is shared through the vocabulary module)",
]

from pyanalyze import value as V  # noqa: E402
from pyanalyze.annotations import type_from_runtime  # noqa: E402
from pyanalyze.checker import Checker  # noqa: E402

EXTRA_TYPES = [
    "Callable[[int], str]", "Callable[..., int]", "Callable[[int, str], None]", "Callable[[], A]", "T", "TB", "TC",
    "list[T]", "dict[str, T]", "Optional[T]", "Callable[[T], U]", "type[T]", "G[int]", "G[T]", "tuple[T, ...]",
    "Tuple[int, Unpack[Tuple[str, ...]]]", "Annotated[int, 1, \"m\"]", "Literal[1, \"a\", None, True]", "LiteralString", "Any",
    "Never", "NoReturn", "List", "Dict", "Type", "list", "type", "Sequence", "Mapping[str, Any]",
    # the same constructs reached through other modules (identity vs name based recognition)
    "collections.abc.Callable[[int], str]", "collections.abc.Callable[..., int]", "collections.abc.Callable[[T], U]",
    "collections.abc.Callable[[], None]", "collections.abc.Callable", "typing.Callable[[int], str]", "typing.Callable",
    "typing_extensions.Callable[[int], str]", "collections.abc.Sequence[int]", "collections.abc.Mapping[str, T]",
    "collections.abc.Iterable[T]", "collections.abc.Awaitable[int]", "collections.abc.Iterator[str]",
    "collections.abc.Generator[int, str, None]", "collections.abc.Set[int]", "collections.abc.MutableMapping[str, int]",
    "typing.Optional[int]", "typing.Union[int, str]", "typing_extensions.Literal[1, 2]", "typing.Literal[\"a\"]",
    "typing_extensions.Annotated[int, 1]", "typing.Annotated[str, \"m\"]", "typing.Tuple[int, ...]", "typing.Type[A]",
    "typing_extensions.Never", "typing_extensions.LiteralString", "typing.Any", "typing_extensions.Unpack[Tuple[int, str]]",
    "tuple[int, typing_extensions.Unpack[tuple[str, ...]]]", "typing.List[int]", "typing.Dict[str, int]",
    "type[typing.Any]", "typing.Type[typing.Any]", "collections.abc.Callable[[int], collections.abc.Callable[[str], int]]",
]


def annotation_strategy():
    base = universe.type_strategy(3, star=True)
    extra = st.sampled_from(EXTRA_TYPES)
    wrap = st.builds(lambda w, a: w.format(a), st.sampled_from(["Optional[{0}]", "list[{0}]", "tuple[{0}, int]", "dict[str, {0}]", "{0} | None", "Union[{0}, str]"]), extra)
    return st.one_of(base, base, extra, wrap).filter(universe.valid_type_src)


def norm(v):
    """Distribute Annotated over unions and re-unite (representation only)."""
    try:
        return V.unite_values(*V.flatten_values(v))
    except Exception:
        return v


def same_value(a, b):
    for x, y in ((a, b), (norm(a), norm(b))):
        try:
            if x == y:
                return True
        except Exception:
            pass
    return str(norm(a)) == str(norm(b))


HEADER = "import collections.abc, typing, typing_extensions\nfrom typing import *\nfrom typing_extensions import *\nfrom pv_vocab import *\n"


def param_values(src, names):
    """Value of parameter p inside each function named in `names`."""
    res = sut.check_source(src, collect_values=True, checker=shared())
    if res.raised is not None:
        raise res.raised
    out = {}
    internal = {}
    for d in res.diags:
        if d.code == "internal_error":
            for fd in res.tree.body:
                if isinstance(fd, ast.FunctionDef) and fd.lineno <= (d.lineno or 0) <= fd.end_lineno:
                    internal[fd.name] = d.description[-150:]
    for fd in res.tree.body:
        if isinstance(fd, ast.FunctionDef) and fd.name in names:
            for n in ast.walk(fd):
                if isinstance(n, ast.Call) and isinstance(n.func, ast.Name) and n.func.id == "use":
                    vals = res.values_of(n.args[0])
                    if vals:
                        out[fd.name] = vals[-1]
    return out, internal


_shared = [None, 0]


def shared():
    if _shared[0] is None or _shared[1] > 200:
        _shared[0], _shared[1] = sut.new_checker(), 0
    _shared[1] += 1
    return _shared[0]


def strip_annotated_constraints(v):
    return v


def outer_ctor(tsrc):
    m = re.match(r"^(\w+)", tsrc)
    if "*tuple[" in tsrc:
        return "tuple-star"
    return m.group(1) if m else tsrc[:10]


def judge_annotations(types, col=None):
    fails = []
    lines = HEADER.rstrip("\n").split("\n")
    lines2 = ["from __future__ import annotations"] + HEADER.rstrip("\n").split("\n")
    for i, t in enumerate(types):
        lines += [f"def a{i}(p: {t}) -> None:", "    use(p)", f"def s{i}(p: {t!r}) -> None:", "    use(p)"]
        lines2 += [f"def f{i}(p: {t}) -> None:", "    use(p)"]
    v1, int1 = param_values("\n".join(lines) + "\n", {f"a{i}" for i in range(len(types))} | {f"s{i}" for i in range(len(types))})
    v2, int2 = param_values("\n".join(lines2) + "\n", {f"f{i}" for i in range(len(types))})
    for i, t in enumerate(types):
        routes = {}
        errors = {}
        for name, key, store, internal in ((f"a{i}", "source", v1, int1), (f"s{i}", "string", v1, int1), (f"f{i}", "future", v2, int2)):
            if name in internal:
                errors[key] = internal[name]
            elif name in store:
                routes[key] = store[name]
        try:
            routes["runtime"] = type_from_runtime(universe.eval_type(t))
        except Exception as e:
            errors["runtime"] = f"{type(e).__name__}: {e}"
        try:
            routes["runtime-string"] = type_from_runtime(t, globals=NS)
        except Exception as e:
            errors["runtime-string"] = f"{type(e).__name__}: {e}"
        depth = t.count("[")
        if col is not None:
            col.case(nontrivial_id=t if depth >= 2 or re.search(r"tuple|Tuple|Callable|Annotated", t) else None,
                     label=[f"outer:{outer_ctor(t)}"], sample=t)
        ctor = outer_ctor(t)
        if "*tuple[" in t:
            ctor = "tuple-star"
        for k, msg in errors.items():
            fails.append((f"route-raises|{k}|{ctor}", f"`{t}` through the {k} route fails: {msg}", t))
        keys = sorted(routes)
        for a, b in zip(keys, keys[1:]):
            if not same_value(routes[a], routes[b]):
                fails.append((f"routes-differ|{a}!={b}|{ctor}|{type(routes[a]).__name__}/{type(routes[b]).__name__}",
                              f"`{t}`: {a} route gives {routes[a]} but {b} route gives {routes[b]}", t))
                break
    return fails


# ----------------------------------------------------------------- headers

ANN = ["int", "str", "Optional[int]", "list[int]", "A", "float", "tuple[int, str]"]


def typed_header(params, anns, ret, name, defaults):
    parts = []
    n_po = sum(1 for k, _, _ in params if k == "po")
    seen = 0
    star = False
    for (kind, nm, d), a, dv in zip(params, anns, defaults):
        ann = f": {a}" if a else ""
        dflt = (f" = {dv}" if a else f"={dv}") if d else ""
        if kind == "po":
            parts.append(f"{nm}{ann}{dflt}")
            seen += 1
            if seen == n_po:
                parts.append("/")
        elif kind == "pk":
            parts.append(f"{nm}{ann}{dflt}")
        elif kind == "va":
            parts.append(f"*args{ann}")
            star = True
        elif kind == "ko":
            if not star:
                parts.append("*")
                star = True
            parts.append(f"{nm}{ann}{dflt}")
        else:
            parts.append(f"**kwargs{ann}")
    r = f" -> {ret}" if ret else ""
    return f"def {name}({', '.join(parts)}){r}: pass"


def describe_sig(sig):
    """Comparable description.  An annotation that admits Any at top level is 'Any' (the def-node
    route adds the default's type to an unannotated parameter: Any | Literal['d']); a default is
    compared by presence and, when both routes know it, by value (`...` and other unknown defaults
    are shown as Any by the def-node route)."""
    out = []
    for name, p in sig.parameters.items():
        ann = p.annotation
        if any(isinstance(m, V.AnyValue) for m in V.flatten_values(ann, unwrap_annotated=True)):
            ann_s = "Any"
        else:
            ann_s = str(ann)
        d = p.default
        if d is None:
            d_s = None
        elif isinstance(d, V.KnownValue) and d.val is not Ellipsis:
            d_s = str(d)
        else:
            d_s = "<some default>"
        out.append((name, p.kind.name, d_s, ann_s))
    return out, str(sig.return_value)


def compatible_desc(a, b):
    if len(a) != len(b):
        return False
    for x, y in zip(a, b):
        if x[0] != y[0] or x[1] != y[1] or x[3] != y[3]:
            return False
        if (x[2] is None) != (y[2] is None):
            return False
        if x[2] != y[2] and "<some default>" not in (x[2], y[2]):
            return False
    return True


def judge_headers(headers, col=None, future=False):
    """headers: list of (params, anns, ret, defaults).  With future=True the module starts with
    `from __future__ import annotations`, so the function objects carry their annotations as strings."""
    fails = []
    lines = (["from __future__ import annotations"] if future else []) + HEADER.rstrip("\n").split("\n")
    for i, (params, anns, ret, defaults) in enumerate(headers):
        lines.append(typed_header(params, anns, ret, f"h{i}", defaults))
        lines.append(f"def outer{i}():")
        lines.append("    " + typed_header(params, anns, ret, f"loc{i}", defaults))
        lines.append(f"    use(loc{i})")
    src = "\n".join(lines) + "\n"
    res = sut.check_source(src, collect_values=True, checker=shared(), keep_module=True)
    try:
        if res.raised is not None:
            raise res.raised
        ctx = res and shared()
        nested = {}
        for n in ast.walk(res.tree):
            if isinstance(n, ast.Call) and isinstance(n.func, ast.Name) and n.func.id == "use" and isinstance(n.args[0], ast.Name):
                vals = res.values_of(n.args[0])
                if vals:
                    nested[n.args[0].id] = vals[-1]
        for i, (params, anns, ret, defaults) in enumerate(headers):
            text = typed_header(params, anns, ret, "f", defaults)
            kinds = {k for k, _, _ in params}
            if col is not None:
                col.case(nontrivial_id=text if len(kinds) >= 2 else None, label="route:header", sample=text)
            fn = getattr(res.module, f"h{i}")
            try:
                rt_sig = ctx.get_signature(fn)
            except Exception as e:
                # the runtime view yields nothing at all for a header the def-node view handles
                fails.append((f"signature-route-raises|{type(e).__name__}" + ("|future" if future else ""),
                              f"`{text}`: deriving the signature from the function object raised {type(e).__name__}: {e}", headers[i]))
                continue
            v = nested.get(f"loc{i}")
            st_sig = None
            if isinstance(v, V.CallableValue):
                st_sig = v.signature
            elif isinstance(v, V.KnownValue):
                st_sig = ctx.get_signature(v.val)
            elif v is not None and hasattr(v, "signature"):
                st_sig = v.signature
            if rt_sig is None or st_sig is None or not hasattr(rt_sig, "parameters") or not hasattr(st_sig, "parameters"):
                continue
            a, ra = describe_sig(rt_sig)
            b, rb = describe_sig(st_sig)
            if not compatible_desc(a, b):
                diff = next((x, y) for x, y in zip(a + [None] * 9, b + [None] * 9) if x != y)
                field = "count" if diff[0] is None or diff[1] is None else ["name", "kind", "default", "annotation"][
                    next(k for k in range(4) if diff[0][k] != diff[1][k])]
                fails.append((f"signature-differs|{field}|{(diff[0] or diff[1])[1]}" + ("|future" if future else ""),
                              f"`{text}`{' (module with future annotations)' if future else ''}: from the function object {a}, from the def node {b}", headers[i]))
            elif ra != rb:
                fails.append((f"signature-differs|return" + ("|future" if future else ""),
                              f"`{text}`: return from the function object {ra}, from the def node {rb}", headers[i]))
        return fails
    finally:
        sut.forget_module(res.module)


@st.composite
def header_strategy(draw):
    params = draw(st.sampled_from([p for p in c05.signatures(4) if p]))
    extra = {"va": ["Unpack[Tuple[int, str]]", "Unpack[Tuple[int, ...]]", "Unpack[tuple[str]]"], "vk": ["Unpack[TDk]"]}
    anns = [draw(st.sampled_from(ANN + [None] + extra.get(k, []) * 2)) for k, _, _ in params]
    # besides plain literals: objects with unusual equality (equal to everything, equal to nothing, identity only) and
    # an unhashable one
    defaults = [draw(st.sampled_from(["0", "None", '"d"', "()", "...", "ANYTHING", "SENTINEL", "NAN", "[]", "NotImplemented", "E.a"])) for _ in params]
    ret = draw(st.sampled_from(ANN + [None, "None"]))
    return params, anns, ret, defaults


# ----------------------------------------------------------------- two modules


def judge_import(items, col=None):
    """items from c06: (callable, calls).  Same calls inside the defining module and from an importer."""
    defs = c06.HEADER.rstrip("\n").split("\n")
    for c, calls in items:
        defs += c["defs"]
    body = ["def body():"]
    lmap = {}
    for ci, (c, calls) in enumerate(items):
        for j, (argtext, pairs) in enumerate(calls):
            body.append(f"    r{ci}_{j} = {c['callee']}({argtext})")
            lmap[len(body)] = (ci, j)
    m1_src = "\n".join(defs + body) + "\n"
    name = "pvmod_c13_defs"
    mod = sut.make_named_module(m1_src, name)
    try:
        r1 = sut.check_source(m1_src, checker=shared(), module=mod)
        names = sorted({re.match(r"\w+", c["callee"]).group(0) for c, _ in items})
        m2_src = c06.HEADER + f"from {name} import {', '.join(names)}\n" + "\n".join(body) + "\n"
        r2 = sut.check_source(m2_src, checker=shared())
        off1 = len(defs)
        off2 = len(c06.HEADER.rstrip("\n").split("\n")) + 1
        d1 = sorted((d.lineno - off1, d.code) for d in r1.diags if d.lineno and d.lineno > off1 and d.code.startswith("incompatible"))
        d2 = sorted((d.lineno - off2, d.code) for d in r2.diags if d.lineno and d.lineno > off2 and d.code.startswith("incompatible"))
        fails = []
        if col is not None:
            col.case(nontrivial_id=("import", m1_src), label="route:two-modules", n=len(lmap))
        if d1 != d2:
            only1 = [x for x in d1 if x not in d2]
            only2 = [x for x in d2 if x not in d1]
            line = (only1 or only2)[0][0]
            ci, j = lmap.get(line, (0, 0))
            c, calls = items[ci]
            fails.append((f"import-differs|{c['form']}|{'defining-only' if only1 else 'importer-only'}",
                          f"{' / '.join(c['defs'][:3])}: `{c['callee']}({calls[j][0]})` is {'diagnosed' if only1 else 'accepted'} in the defining module "
                          f"but {'accepted' if only1 else 'diagnosed'} in an importing module", {"items": [[c, [list(x) for x in calls]]]}))
        return fails
    finally:
        sut.forget_module(mod)


# ----------------------------------------------------------------- attribute declarations (Final / ClassVar)

QUALS = [("plain", "{0}"), ("classvar", "ClassVar[{0}]"), ("final", "Final[{0}]"), ("typing-classvar", "typing.ClassVar[{0}]"),
         ("te-final", "typing_extensions.Final[{0}]"), ("annotated-final", "Annotated[Final[{0}], 1]")]
QUALS_CHECKED = QUALS[:5]


def class_lines(i, t, quote):
    q = (lambda a: repr(a)) if quote else (lambda a: a)
    lines = [f"class K{i}:"]
    for qname, tmpl in QUALS_CHECKED:
        lines.append(f"    {qname.replace('-', '_')}: {q(tmpl.format(t))}")
    return lines


def judge_classvars(types, col=None):
    """The declared type of an attribute annotated T, ClassVar[T], Final[T] (plain and module-qualified), read
    through an instance: class in the checked module / annotations as strings / class imported from a module /
    class imported from a module that uses `from __future__ import annotations`.  All must equal the plain T."""
    hdr = HEADER.rstrip("\n").split("\n")
    attrs = [q.replace("-", "_") for q, _ in QUALS_CHECKED]
    lib_a, lib_b, here, here_s = list(hdr), ["from __future__ import annotations"] + hdr, list(hdr), list(hdr)
    for i, t in enumerate(types):
        lib_a += class_lines(i, t, False)
        lib_b += class_lines(i, t, False)
        here += class_lines(i, t, False)
        here_s += class_lines(i, t, True)
    uses = []
    for i, t in enumerate(types):
        for a in attrs:
            uses += [f"def u{i}_{a}(k: K{i}) -> None:", f"    use(k.{a})"]
    names = {f"u{i}_{a}" for i in range(len(types)) for a in attrs}
    mods = []
    routes = {}
    internals = {}
    try:
        for tag, lib in (("imported", lib_a), ("imported-future", lib_b)):
            name = f"pvmod_c13_{tag.replace('-', '_')}"
            src = "\n".join(lib) + "\n"
            mods.append(sut.make_named_module(src, name))
            imp = hdr + [f"from {name} import " + ", ".join(f"K{i}" for i in range(len(types)))] + uses
            routes[tag], internals[tag] = param_values("\n".join(imp) + "\n", names)
        routes["source"], internals["source"] = param_values("\n".join(here + uses) + "\n", names)
        routes["string"], internals["string"] = param_values("\n".join(here_s + uses) + "\n", names)
    except SyntaxError:
        return []
    finally:
        for m in mods:
            sut.forget_module(m)
    fails = []
    for i, t in enumerate(types):
        if col is not None:
            col.case(nontrivial_id=("classvars", t), label=["route:classvars", f"outer:{outer_ctor(t)}"])
        ref = routes["source"].get(f"u{i}_plain")
        if ref is None:
            continue
        done = False
        for tag in ("source", "string", "imported", "imported-future"):
            for a in attrs:
                fn = f"u{i}_{a}"
                if fn in internals[tag]:
                    fails.append((f"classvar-route-raises|{tag}|{a}", f"`{a}: {t}` through the {tag} route: {internals[tag][fn]}", t))
                    done = True
                    break
                v = routes[tag].get(fn)
                if v is None:
                    continue
                if not same_value(ref, v):
                    fails.append((f"classvar-routes-differ|{tag}|{a}|{type(v).__name__}",
                                  f"attribute declared `{a}: {dict(QUALS)[a.replace('_', '-')].format(t)}` read through the {tag} route is {v}, "
                                  f"but the plain `{t}` attribute in the checked module is {ref}", t))
                    done = True
                    break
            if done:
                break
    return fails


# ----------------------------------------------------------------- names that shadow builtins

SHADOW_NAMES = ["TimeoutError", "ValueError", "range", "dict", "property", "Exception", "object", "type", "bytes", "id", "input"]


def judge_shadow(names, future, col=None):
    """A module defines classes whose names shadow builtins and uses them in quoted and unquoted
    annotations; calls are judged in the defining module and in an importing module.  Expected: an
    instance of the module's class is accepted, an instance of the builtin of the same name (or 1) is
    not - whatever the route."""
    import builtins as _b

    lib = (["from __future__ import annotations"] if future else []) + ["import builtins"]
    for n in names:
        lib += [f"class {n}:", "    pass", f"def q_{n}(x: \"{n}\") -> None: ...", f"def u_{n}(x: {n}) -> None: ...",
                f"def o_{n}(x: \"Optional[{n}]\" = None) -> None: ..."]
    lib.insert(1 if future else 0, "from typing import Optional")
    calls, cmap = [], {}
    for n in names:
        for fn in ("q", "u", "o"):
            calls.append(f"    {fn}_{n}(K_{n}())")
            cmap[len(calls)] = (n, fn, "own", True)
            calls.append(f"    {fn}_{n}(1.5)")
            cmap[len(calls)] = (n, fn, "float", False)
            if isinstance(getattr(_b, n, None), type) and n not in ("object", "type"):
                calls.append(f"    {fn}_{n}(B_{n})")
                cmap[len(calls)] = (n, fn, "builtin-instance", False)
    name = "pvmod_c13_shadow" + ("_f" if future else "")
    lib_src = "\n".join(lib) + "\n"
    # in the defining module the classes are reached through aliases K_<n>; instances of the builtins through B_<n>
    alias = [f"K_{n} = {n}" for n in names]
    binst = []
    for n in names:
        if isinstance(getattr(_b, n, None), type) and n not in ("object", "type"):
            ctor = {"range": "builtins.range(3)", "bytes": "builtins.bytes(2)", "property": "builtins.property()"}.get(n, f"builtins.{n}()")
            binst.append(f"B_{n} = {ctor}")
    here_src = lib_src + "\n".join(alias + binst) + "\ndef body():\n" + "\n".join(calls) + "\n"
    off_here = len(lib_src.split("\n")) - 1 + len(alias) + len(binst) + 1
    mod = sut.make_named_module(lib_src, name)
    fails = []
    try:
        imp = ["import builtins", f"import {name} as L"] + [f"from {name} import q_{n}, u_{n}, o_{n}" for n in names] \
            + [f"K_{n} = L.{n}" for n in names] + binst
        off_imp = len(imp) + 1
        imp_src = "\n".join(imp) + "\ndef body():\n" + "\n".join(calls) + "\n"
        verdicts = {}
        for tag, src, off in (("defining", here_src, off_here), ("importing", imp_src, off_imp)):
            res = sut.check_source(src, checker=shared())
            if res.raised is not None:
                raise res.raised
            bad = {d.lineno - off for d in res.diags if d.code in ("incompatible_argument", "incompatible_call") and d.lineno}
            internal = [d for d in res.diags if d.code == "internal_error"]
            if internal:
                fails.append((f"shadow-internal-error|{tag}", internal[0].description[-200:], {"shadow": names, "future": future}))
                continue
            for k, (n, fn, what, ok) in cmap.items():
                verdicts[(tag, n, fn, what)] = (k not in bad, ok)
        for (tag, n, fn, what), (accepted, ok) in sorted(verdicts.items()):
            if col is not None:
                col.case(nontrivial_id=("shadow", tag, n, fn, what, future), label=["route:shadow", f"module:{tag}"])
            if accepted != ok:
                spelled = {"q": "quoted", "u": "unquoted", "o": "quoted Optional"}[fn]
                fails.append((f"shadow-builtin|{tag}|{spelled}|{what}|{'accepted' if accepted else 'rejected'}",
                              f"module-level class `{n}` shadows the builtin; parameter annotated {spelled} `{n}` "
                              f"({'with' if future else 'without'} future annotations), call judged in the {tag} module: "
                              f"argument `{what}` is {'accepted' if accepted else 'rejected'}, expected {'accepted' if ok else 'rejected'}",
                              {"shadow": [n], "future": future}))
        return fails
    finally:
        sut.forget_module(mod)


# ----------------------------------------------------------------- shards


def shards(tier, seed):
    n = 16
    out = [{"mode": "depth2", "index": i, "of": 6} for i in range(6)]
    out += [{"mode": "annotations", "index": i, "modules": 25 if tier == "quick" else 400} for i in range(5)]
    out += [{"mode": "headers", "index": i, "modules": 20 if tier == "quick" else 400} for i in range(3)]
    out += [{"mode": "import", "index": i, "modules": 12 if tier == "quick" else 300} for i in range(2)]
    out += [{"mode": "classvars", "index": i, "of": 2} for i in range(2)]
    out.append({"mode": "shadow"})
    return out


def run_shard(spec):
    col = runner.Collector(spec)
    seed = runner.mix_seed(spec["seed"], ID, spec["name"])
    mode = spec["mode"]
    if mode == "depth2":
        types = [t for t in universe.types_depth1() + EXTRA_TYPES if universe.valid_type_src(t)]
        types += [t for t in universe.types_depth2() if universe.valid_type_src(t)]
        mine = types[spec["index"]::spec["of"]]
        for k in range(0, len(mine), 100):
            for key, what, t in judge_annotations(mine[k:k + 100], col):
                col.fail(key, what, {"type": t})
            if col.out_of_time():
                break
        col.extra["exhaustive"] = not col.budget_hit
        col.extra["exhaustive_bounds"] = ["all annotation expressions of constructor depth <= 2 from pv/universe.py plus the EXTRA_TYPES list"]
        return col.result()
    if mode == "shadow":
        for future in (False, True):
            for key, what, case in judge_shadow(SHADOW_NAMES, future, col):
                col.fail(key, what, case)
        return col.result()
    if mode == "classvars":
        types = [t for t in universe.types_depth1() + EXTRA_TYPES if universe.valid_type_src(t)
                 and not re.search(r"Unpack|Never|NoReturn|Required|ClassVar|Final", t)]
        if spec.get("tier") != "quick":
            types += [t for t in universe.types_depth2() if universe.valid_type_src(t)][::7]
        mine = types[spec["index"]::spec["of"]]
        for k in range(0, len(mine), 40):
            for key, what, t in judge_classvars(mine[k:k + 40], col):
                col.fail(key, what, {"classvar_type": t})
            if col.out_of_time():
                break
        return col.result()
    if mode == "annotations":
        def make():
            @given(st.lists(annotation_strategy(), min_size=60, max_size=60))
            def t(types):
                for key, what, ty in judge_annotations(types, col):
                    col.fail(key, what, {"type": ty})
            return t
        runner.drive(col, make, seed, spec["modules"], shrink=False)
        return col.result()
    if mode == "headers":
        def make_h():
            @given(st.lists(header_strategy(), min_size=40, max_size=40))
            def t(headers):
                for future in (False, True):
                    for key, what, h in judge_headers(headers, col, future=future):
                        col.fail(key, what, {"header": [[list(p) for p in h[0]], h[1], h[2], h[3]], "future": future})
            return t
        runner.drive(col, make_h, seed, spec["modules"], shrink=False)
        return col.result()

    def make_i():
        @given(st.data())
        def t(data):
            items = []
            for i in range(25):
                c = data.draw(c06.plain_callable(i))
                if c["form"] in ("init", "dataclass", "method", "classmethod", "staticmethod"):
                    pass
                items.append((c, [data.draw(c06.simple_call(c)) for _ in range(3)]))
            for key, what, case in judge_import(items, col):
                col.fail(key, what, case)
        return t
    runner.drive(col, make_i, seed, spec["modules"], shrink=False)
    return col.result()


def replay_all(case):
    if "shadow" in case:
        fails = judge_shadow(case["shadow"], case.get("future", False))
    elif "classvar_type" in case:
        fails = judge_classvars([case["classvar_type"]])
    elif "type" in case:
        fails = judge_annotations([case["type"]])
    elif "header" in case:
        h = case["header"]
        fails = judge_headers([([tuple(p) for p in h[0]], h[1], h[2], h[3])], future=bool(case.get("future")))
    else:
        items = []
        for c, calls in case["items"]:
            c = dict(c)
            c["params"] = [tuple(p) for p in c.get("params", [])]
            items.append((c, [(a, [tuple(x) for x in ps]) for a, ps in calls]))
        fails = judge_import(items)
    return [{"key": k, "what": w, "case": case} for k, w, _ in fails]


def replay(case):
    for f in replay_all(case):
        return f
    return None

"""C03 - assignability of a concrete value equals runtime membership."""

from __future__ import annotations

import typing

import typing_extensions
from hypothesis import given, strategies as st

from pv import member, runner, sut, universe
from pv.universe import NS, UNIVERSE

ID = "C03"
TECHNIQUE = "differential property-based testing: pyanalyze.runtime.is_assignable and literal diagnostics vs an independent structural membership model (bounded exhaustive + Hypothesis)"
RULE = (
    "pairs (object o, static type T): o from a ~150-object universe plus Hypothesis-built nested containers; "
    "T enumerated exhaustively to constructor depth 2 and sampled at depth 3 from the typing grammar in "
    "pv/universe.py. Oracle: is_assignable(o,T) == member_rt(o,T) in both directions, get_assignability_error "
    "is None iff assignable; and for literal objects the lines `x: T = <lit>` / `takes(<lit>)` inside a "
    "function are diagnosed iff not a member. Non-trivial = type(o) is related to the outer constructor of T "
    "(verdict depends on contents); distinct by (o source, T source)."
    ' Universe and grammar include instances and types of subclasses of float and int (promotion applies to them) and the Unpack spelling of variadic tuples.'
)
ASSUMPTIONS = [
    "membership model pv/member.py (never calls can_assign); Unknown verdicts are skipped and counted",
    "weak clauses: NewType membership is `type(o) is supertype`; open TypedDicts admit extra keys; protocol membership is attribute presence",
    "bare generics (list = list[Any]) and Callable types are outside the property's 'fully static' domain and not generated",
]

from pyanalyze import runtime  # noqa: E402


def ctor(t):
    o = typing_extensions.get_origin(t)
    if o is tuple and any(getattr(a, "__unpacked__", False) for a in typing_extensions.get_args(t)):
        return "tuple-star"
    if o is not None:
        return getattr(o, "__name__", None) or str(o).replace("typing.", "")
    if hasattr(t, "__supertype__"):
        return "NewType"
    if typing_extensions.is_typeddict(t):
        return "TypedDict:" + t.__name__
    return getattr(t, "__name__", str(t))


def detail(o, t):
    if typing_extensions.is_typeddict(t) and isinstance(o, dict):
        if any(not isinstance(k, str) for k in o):
            return "dict:nonstr-key"
        hints = typing_extensions.get_type_hints(t)
        if any(k not in hints for k in o):
            return "dict:extra-key"
        return "dict"
    return type(o).__name__


def related(o, t):
    """Non-triviality rule."""
    ty = member.from_rt(t)
    return _related(o, ty)


def _related(o, ty):
    tag = ty[0]
    if tag == "union":
        return any(_related(o, x) for x in ty[1])
    if tag == "cls":
        return member.mem_cls(o, ty[1]) is True and type(o) is not ty[1]
    if tag == "lit":
        return type(o) is type(ty[1]) or (isinstance(o, (int, float)) and isinstance(ty[1], (int, float)) and not isinstance(ty[1], type(None)))
    if tag in ("gen", "tuple", "dictinc"):
        c = ty[1]
        try:
            return isinstance(o, c) and len(o) > 0
        except TypeError:
            return isinstance(o, c)
    if tag == "td":
        return isinstance(o, dict)
    if tag == "type":
        return isinstance(o, type)
    if tag == "newtype":
        return isinstance(o, ty[2]) if isinstance(ty[2], type) else False
    return False


def api_verdict(o, t):
    got = runtime.is_assignable(o, t)
    err = runtime.get_assignability_error(o, t)
    return got, err


import collections.abc as _cabc

_ITER_ORIGINS = (_cabc.Sequence, _cabc.Iterable, _cabc.Collection, _cabc.Container, _cabc.Reversible, _cabc.MutableSequence,
                 _cabc.Set, _cabc.MutableSet)
_MAP_ORIGINS = (_cabc.Mapping, _cabc.MutableMapping)


def localize(o, t, direction, depth=0):
    """Descend to the innermost (object, type) component that still disagrees."""
    if depth > 6:
        return o, t
    origin = typing_extensions.get_origin(t)
    args = typing_extensions.get_args(t)
    subs = []
    if origin in (typing.Union, getattr(__import__("types"), "UnionType")):
        subs = [(o, a) for a in args]
    elif origin in (typing.Annotated,):
        subs = [(o, args[0])]
    elif origin in (list, set, frozenset) and isinstance(o, origin) and args:
        subs = [(e, args[0]) for e in o]
    elif origin in _ITER_ORIGINS and isinstance(o, (list, tuple, set, frozenset)) and args:
        subs = [(e, args[0]) for e in o]
    elif (origin is dict or origin in _MAP_ORIGINS) and isinstance(o, dict) and len(args) == 2:
        subs = [(k, args[0]) for k in o] + [(v, args[1]) for v in o.values()]
    elif origin is tuple and isinstance(o, tuple) and args and Ellipsis not in args and len(args) == len(o) \
            and not any(getattr(a, "__unpacked__", False) or typing_extensions.get_origin(a) is typing_extensions.Unpack for a in args) \
            and args != ((),):
        subs = list(zip(o, args))
    elif origin is tuple and isinstance(o, tuple) and len(args) == 2 and args[1] is Ellipsis:
        subs = [(e, args[0]) for e in o]
    elif origin is tuple and isinstance(o, tuple) and args and Ellipsis not in args:
        # prefix + one unpacked variadic part + suffix
        def inner(a):
            if typing_extensions.get_origin(a) is typing_extensions.Unpack:
                return typing_extensions.get_args(a)[0]
            if getattr(a, "__unpacked__", False):
                return a
            return None
        idx = [i for i, a in enumerate(args) if inner(a) is not None]
        if len(idx) == 1:
            i = idx[0]
            ia = typing_extensions.get_args(inner(args[i]))
            npre, nsuf = i, len(args) - i - 1
            if len(ia) == 2 and ia[1] is Ellipsis and len(o) >= npre + nsuf:
                subs = list(zip(o[:npre], args[:npre])) + [(e, ia[0]) for e in o[npre:len(o) - nsuf]] \
                    + list(zip(o[len(o) - nsuf:] if nsuf else (), args[i + 1:]))
    for so, stype in subs:
        try:
            exp = member.member_rt(so, stype)
            got = runtime.is_assignable(so, stype)
        except Exception:
            continue
        if exp is None or got == exp:
            continue
        d = "accepts non-member" if got else "rejects member"
        if d == direction:
            return localize(so, stype, direction, depth + 1)
    return o, t


def compare_api(osrc, tsrc):
    """Returns (status, failure) where status in 'agree'/'skip'/'fail'."""
    o = eval(osrc, NS)
    t = universe.eval_type(tsrc)
    exp = member.member_rt(o, t)
    if exp is None:
        return "skip", None, None
    try:
        got, err = api_verdict(o, t)
    except Exception as e:
        return "fail", exp, {
            "key": f"api|raises|{type(e).__name__}|{ctor(t)}",
            "what": f"is_assignable({osrc}, {tsrc}) raised {type(e).__name__}: {e}",
            "case": {"route": "api", "obj": osrc, "type": tsrc},
        }
    if (err is None) != got:
        return "fail", exp, {
            "key": f"api|error-mismatch|{ctor(t)}",
            "what": f"is_assignable({osrc}, {tsrc}) = {got} but get_assignability_error = {err!r}",
            "case": {"route": "api", "obj": osrc, "type": tsrc},
        }
    if got == exp:
        return "agree", exp, None
    direction = "accepts non-member" if got else "rejects member"
    lo, lt = localize(o, t, direction)
    return "fail", exp, {
        "key": f"api|{direction}|{'tuple-star' if '*tuple[' in tsrc else ctor(lt)}|{detail(lo, lt)}",
        "what": f"is_assignable({osrc}, {tsrc}) = {got}, membership model says {exp} "
                f"(innermost component: {lo!r} vs {lt!r})",
        "case": {"route": "api", "obj": osrc, "type": tsrc},
    }


# ----------------------------------------------------------------- program route

HEADER = "from typing import *\nfrom typing_extensions import *\nfrom pv_vocab import *\n"


def build_module(pairs):
    """pairs: list of (osrc, tsrc).  Returns (source, line->index map for assign / call)."""
    lines = HEADER.rstrip("\n").split("\n")
    for i, (osrc, tsrc) in enumerate(pairs):
        lines.append(f"def takes_{i}(p: {tsrc}) -> None: ...")
    lines.append("def body():")
    amap, cmap = {}, {}
    for i, (osrc, tsrc) in enumerate(pairs):
        lines.append(f"    x{i}: {tsrc} = {osrc}")
        amap[len(lines)] = i
        lines.append(f"    takes_{i}({osrc})")
        cmap[len(lines)] = i
    return "\n".join(lines) + "\n", amap, cmap


def run_program(pairs, checker):
    src, amap, cmap = build_module(pairs)
    res = sut.check_source(src, checker=checker)
    if res.raised is not None:
        raise res.raised
    a_diag, c_diag = set(), set()
    other = {}
    for d in res.diags:
        if d.code == "incompatible_assignment" and d.lineno in amap:
            a_diag.add(amap[d.lineno])
        elif d.code == "incompatible_argument" and d.lineno in cmap:
            c_diag.add(cmap[d.lineno])
        elif d.code in ("unused_variable", "unused_assignment"):
            continue
        elif d.lineno in amap or d.lineno in cmap:
            other.setdefault(amap.get(d.lineno, cmap.get(d.lineno)), []).append((d.code, d.description))
    return a_diag, c_diag, other


def compare_program(pairs, checker, col=None):
    fails = []
    usable = []
    for osrc, tsrc in pairs:
        o = eval(osrc, NS)
        t = universe.eval_type(tsrc)
        exp = member.member_rt(o, t)
        if exp is None:
            if col:
                col.skipped += 1
            continue
        usable.append((osrc, tsrc, exp))
    if not usable:
        return fails
    a_diag, c_diag, other = run_program([(o, t) for o, t, _ in usable], checker)
    for i, (osrc, tsrc, exp) in enumerate(usable):
        if i in other:
            # some unrelated diagnostic on the line (e.g. the literal itself is ill-formed)
            if col:
                col.discarded += 1
            continue
        o = eval(osrc, NS)
        t = universe.eval_type(tsrc)
        if col:
            col.case(nontrivial_id=("prog", osrc, tsrc) if related(o, t) else None,
                     label=["route:program", f"member:{exp}"])
        for route, diag in (("assign", i in a_diag), ("call", i in c_diag)):
            if diag == (not exp):
                continue
            direction = "rejects member" if diag else "accepts non-member"
            # key by the innermost disagreeing component (as the API route does), so that one root cause has one key
            lo, lt = localize(o, t, direction)
            fails.append({
                "key": f"prog-{route}|{direction}|{'tuple-star' if '*tuple[' in tsrc else ctor(lt)}|{detail(lo, lt)}",
                "what": f"`{'x: ' + tsrc + ' = ' + osrc if route == 'assign' else 'takes(' + osrc + ')  # p: ' + tsrc}` "
                        f"is {'diagnosed' if diag else 'not diagnosed'}, membership model says member={exp}",
                "case": {"route": "program", "obj": osrc, "type": tsrc},
            })
    return fails


def is_literal_src(src):
    """True if pyanalyze sees the expression as a literal / display of literals."""
    import ast

    try:
        tree = ast.parse(src, mode="eval")
    except SyntaxError:
        return False
    for n in ast.walk(tree):
        if isinstance(n, (ast.Expression, ast.Constant, ast.Tuple, ast.List, ast.Set, ast.Dict,
                          ast.UnaryOp, ast.USub, ast.Load, ast.BinOp, ast.Pow)):
            continue
        if isinstance(n, ast.Attribute) and isinstance(n.value, ast.Name) and n.value.id in ("E", "IE"):
            continue
        if isinstance(n, ast.Name) and n.id in ("E", "IE", "int", "bool", "str", "float", "A", "B", "C",
                                                "type", "object", "list", "D", "frozenset", "set"):
            continue
        if isinstance(n, ast.Call) and isinstance(n.func, ast.Name) and n.func.id in ("frozenset", "set"):
            continue
        return False
    return True


@st.composite
def pair_strategy(draw):
    """(object source, type source): half of the objects are witnesses / near-misses of the type."""
    tsrc = draw(universe.type_strategy(3))
    mode = draw(st.integers(0, 9))
    if mode < 7:
        ty = member.from_rt(universe.eval_type(tsrc))
        objs = member.inhabitants(ty, 8) if mode < 4 else member.near_misses(ty, 8)
        srcs = [x for x in (member.to_src(o) for o in objs) if x is not None]
        if srcs:
            return draw(st.sampled_from(srcs)), tsrc
    return draw(universe.object_strategy()), tsrc


# ----------------------------------------------------------------- shards

LITERAL_OBJS = [o.src for o in UNIVERSE if o.literal and o.kind in ("scalar", "enum", "container")]


def nested_types():
    """Homogeneous containers of homogeneous containers (depth 3, element-wise expansion twice)."""
    inner = ["list[{0}]", "dict[str, {0}]", "set[{0}]", "tuple[{0}, ...]", "Sequence[{0}]"]
    outer = ["list[{0}]", "tuple[{0}, ...]", "Sequence[{0}]", "Iterable[{0}]", "dict[int, {0}]", "tuple[{0}, {0}]", "Optional[list[{0}]]"]
    return [o.format(i.format(x)) for o in outer for i in inner for x in ("int", "float", "bool", "str", "object")]


def all_types(tier):
    d1 = universe.types_depth1()
    d2 = [t for t in universe.types_depth2() if universe.valid_type_src(t)]
    return d1 + d2 + [t for t in nested_types() if universe.valid_type_src(t)]


def shards(tier, seed):
    n = 16
    out = [{"mode": "exhaustive", "index": i, "of": n} for i in range(n)]
    out += [{"mode": "random", "index": i, "examples": 400 if tier == "quick" else 20000} for i in range(n)]
    out += [{"mode": "program", "index": i, "of": n, "modules": 6 if tier == "quick" else 120} for i in range(n)]
    return out


def run_shard(spec):
    col = runner.Collector(spec)
    mode = spec["mode"]
    seed = runner.mix_seed(spec["seed"], ID, spec["name"])
    if mode == "exhaustive":
        types = all_types(spec["tier"])
        mine = types[spec["index"]::spec["of"]]
        for tsrc in mine:
            t = universe.eval_type(tsrc)
            for ob in UNIVERSE:
                status, exp, failure = compare_api(ob.src, tsrc)
                if status == "skip":
                    col.skipped += 1
                    continue
                col.case(nontrivial_id=(ob.src, tsrc) if related(ob.obj, t) else None,
                         label=[f"member:{exp}", "route:api"])
                if failure:
                    col.fail(failure["key"], failure["what"], failure["case"])
            if col.out_of_time():
                break
        col.extra["exhaustive"] = not col.budget_hit
        col.extra["exhaustive_types"] = len(mine)
        col.extra["exhaustive_bounds"] = ["universe x all type expressions of constructor depth <= 2 (pv/universe.py)",
                                          "universe x homogeneous containers of homogeneous containers over int/float/bool/str/object"]
        col.sample({"obj": UNIVERSE[spec["index"] % len(UNIVERSE)].src, "type": mine[len(mine) // 2]})
        return col.result()

    if mode == "random":
        def make():
            @given(pair_strategy())
            def t(pair):
                osrc, tsrc = pair
                status, exp, failure = compare_api(osrc, tsrc)
                if status == "skip":
                    col.skipped += 1
                    return
                o = eval(osrc, NS)
                ty = universe.eval_type(tsrc)
                col.case(nontrivial_id=(osrc, tsrc) if related(o, ty) else None,
                         label=[f"member:{exp}", "route:api-random"], sample={"obj": osrc, "type": tsrc})
                if failure:
                    col.fail(failure["key"], failure["what"], failure["case"], raise_new=True)
            return t
        runner.drive(col, make, seed, spec["examples"], replay=replay)
        return col.result()

    # program route: deterministic slices of literal objects x depth<=2 types, chosen by Hypothesis
    checker = sut.new_checker()
    types = all_types(spec["tier"])

    def make_p():
        @given(st.lists(pair_strategy().filter(lambda p: is_literal_src(p[0])), min_size=60, max_size=60))
        def t(pairs):
            fails = compare_program(pairs, checker, col)
            col.sample({"line": f"x: {pairs[0][1]} = {pairs[0][0]}"})
            for f in fails:
                # confirm in isolation before reporting
                if col.is_known(f["key"]) or f["key"] in col.seen_keys:
                    col.fail(f["key"], f["what"], f["case"])
                    continue
                again = replay(f["case"])
                if again is not None:
                    col.fail(again["key"], again["what"], again["case"])
                else:
                    col.unreproduced += 1
        return t
    runner.drive(col, make_p, seed, spec["modules"], shrink=False)
    return col.result()


def replay(case):
    if case.get("route") == "program":
        fails = compare_program([(case["obj"], case["type"])], sut.new_checker())
        return fails[0] if fails else None
    status, exp, failure = compare_api(case["obj"], case["type"])
    return failure

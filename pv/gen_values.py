"""Hypothesis strategies for pyanalyze Value terms.

Every strategy yields *recipes* (nested tuples) rather than Values, so that a
case is JSON-able, can be rebuilt (giving equal-but-not-identical Values) and
replayed:  build(recipe) -> Value.
"""

from __future__ import annotations

from hypothesis import strategies as st

from pv import sut  # noqa: F401
from pv.universe import NS, UNIVERSE
from pyanalyze import value as V
from pyanalyze.annotations import type_from_runtime
from pyanalyze.signature import ParameterKind, Signature, SigParameter

LIT_SRCS = [o.src for o in UNIVERSE if o.kind in ("scalar", "enum", "container")] + ["A_INST", "int", "A", "len"]
CLASSES = ["int", "bool", "str", "bytes", "float", "complex", "object", "A", "B", "C", "D", "E", "IE",
           "list", "dict", "tuple", "type", "HasX", "SupportsClose", "G", "NodeP", "EdgeP", "MyNode", "MyEdge", "Pops"]
GENERIC1 = ["list", "set", "frozenset", "Sequence", "Iterable", "Collection", "G"]
GENERIC2 = ["dict", "Mapping"]
TYPEVARS = ["T", "U", "TB", "TC"]


def _hashable_src(s):
    try:
        hash(eval(s, NS))
        return True
    except TypeError:
        return False


HASHABLE_LIT_SRCS = [s for s in LIT_SRCS if _hashable_src(s)]


def _origin(name):
    o = eval(name, NS)
    import typing_extensions

    return typing_extensions.get_origin(o) or o


def build(r):
    """Recipe -> Value."""
    tag = r[0]
    if tag == "lit":
        return V.KnownValue(eval(r[1], NS))
    if tag == "cls":
        return V.TypedValue(eval(r[1], NS))
    if tag == "gen":
        return V.GenericValue(_origin(r[1]), [build(a) for a in r[2]])
    if tag == "vtuple":
        return V.GenericValue(tuple, [build(r[1])])
    if tag == "seq":
        return V.SequenceValue(eval(r[1], NS), [(bool(m), build(x)) for m, x in r[2]])
    if tag == "dictinc":
        return V.DictIncompleteValue(dict, [V.KVPair(build(k), build(v), bool(m), bool(req)) for k, v, m, req in r[1]])
    if tag == "td":
        # items [key, type, required, readonly?]; optional r[2] = extra-items type (None: open), r[3] = extra items readonly
        items = {it[0]: V.TypedDictEntry(build(it[1]), required=bool(it[2]), readonly=bool(it[3]) if len(it) > 3 else False) for it in r[1]}
        extra = build(r[2]) if len(r) > 2 and r[2] is not None else None
        return V.TypedDictValue(items, extra_keys=extra, extra_keys_readonly=bool(r[3]) if len(r) > 3 else False)
    if tag == "sub":
        return V.SubclassValue(V.TypedValue(eval(r[1], NS)), exactly=bool(r[2]))
    if tag == "union":
        u = V.MultiValuedValue([build(x) for x in r[1]])
        # conventions of values pyanalyze itself builds: the empty union is the
        # NO_RETURN_VALUE singleton, members are pairwise distinct, >= 2 members
        members = []
        for m in u.vals:
            if not any(m == x for x in members):
                members.append(m)
        if not members:
            return V.NO_RETURN_VALUE
        if len(members) == 1:
            return members[0]
        return V.MultiValuedValue(members)
    if tag == "unite":
        return V.unite_values(*[build(x) for x in r[1]])
    if tag == "ann":
        inner = build(r[1])
        if isinstance(inner, V.MultiValuedValue) and not inner.vals:
            return inner  # Annotated[Never, ...] is not something pyanalyze builds
        if isinstance(inner, V.AnnotatedValue):
            # pyanalyze never nests AnnotatedValue (annotate_value merges the metadata)
            return V.annotate_value(inner, [V.KnownValue(m) for m in r[2]])
        return V.AnnotatedValue(inner, [V.KnownValue(m) for m in r[2]])
    if tag == "newtype":
        return V.NewTypeValue(NS["N"])
    if tag == "any":
        return V.AnyValue(getattr(V.AnySource, r[1]))
    if tag == "never":
        return V.NO_RETURN_VALUE
    if tag == "tv":
        return make_typevar_value(r[1])
    if tag == "call":
        params = [SigParameter(f"p{i}", ParameterKind.POSITIONAL_ONLY, annotation=build(p)) for i, p in enumerate(r[1])]
        return V.CallableValue(Signature.make(params, build(r[2])))
    if tag == "rt":
        return type_from_runtime(eval(r[1], NS))
    raise ValueError(r)


def make_typevar_value(name):
    tv = NS[name]
    bound = type_from_runtime(tv.__bound__) if tv.__bound__ is not None else None
    constraints = tuple(type_from_runtime(c) for c in tv.__constraints__)
    return V.TypeVarValue(tv, bound=bound, constraints=constraints)


def describe(r):
    try:
        return str(build(r))
    except Exception as e:  # pragma: no cover
        return f"<unbuildable {r!r}: {e}>"


# ----------------------------------------------------------------- strategies


def leaves(any_ok=False, typevars=False, static_only=False):
    opts = [
        st.sampled_from(LIT_SRCS).map(lambda s: ("lit", s)),
        st.sampled_from(CLASSES).map(lambda s: ("cls", s)),
        st.sampled_from(["int", "str", "A", "B", "object", "E", "bool"]).flatmap(
            lambda s: st.booleans().map(lambda e: ("sub", s, e))),
        st.just(("newtype",)),
        st.just(("never",)),
    ]
    if any_ok:
        opts.append(st.sampled_from(["explicit", "inference", "unannotated", "error"]).map(lambda s: ("any", s)))
    if typevars:
        opts.append(st.sampled_from(TYPEVARS).map(lambda s: ("tv", s)))
    return st.one_of(*opts)


def hashable_leaves():
    return st.one_of(
        st.sampled_from(HASHABLE_LIT_SRCS).map(lambda s: ("lit", s)),
        st.sampled_from(["int", "str", "A", "bool", "float"]).map(lambda s: ("cls", s)),
    )


WIDE_MEMBERS = [("lit", x) for x in ["0", "1", "2", "3", "4", "5", "6", "7", "8", "False", "True", "1.0", '"a"', '"b"', "None", "(0, 0)", "(1, 1)",
                                      '(2, "x")', "(3,)", "[1, 2]", '["a"]', '{"a": 1}', 'b"a"', "E.a", "(True, 2)", "(1, 2)"]] + \
    [("cls", "A"), ("cls", "C"), ("cls", "bytes")]


def wide_union():
    """A union of 10-13 members (pyanalyze uses an indexed lookup from 10 members on): literals that are equal
    across types, several literals of one class with different contents, unhashable literals."""
    return st.lists(st.sampled_from(WIDE_MEMBERS), min_size=10, max_size=13, unique_by=repr).map(lambda xs: ("union", list(xs)))


def values(any_ok=False, typevars=False, callables=True, max_leaves=8):
    def extend(ch):
        opts = [
            st.tuples(st.sampled_from(GENERIC1), ch).map(lambda t: ("gen", t[0], [t[1]])),
            st.tuples(st.sampled_from(GENERIC2), ch, ch).map(lambda t: ("gen", t[0], [t[1], t[2]])),
            ch.map(lambda x: ("vtuple", x)),
            st.tuples(st.sampled_from(["tuple", "list", "set"]),
                      st.lists(st.tuples(st.booleans(), ch), max_size=3)).map(
                lambda t: ("seq", t[0], [[m, x] for m, x in t[1]])),
            st.lists(st.tuples(ch, ch, st.booleans(), st.booleans()), max_size=2).map(
                lambda ps: ("dictinc", [[k, v, m, r] for k, v, m, r in ps])),
            st.lists(st.tuples(st.sampled_from(["a", "b", "c"]), ch, st.booleans()), max_size=3,
                     unique_by=lambda t: t[0]).map(lambda items: ("td", [[k, t, r] for k, t, r in items])),
            st.tuples(st.lists(st.tuples(st.sampled_from(["a", "b", "c"]), ch, st.booleans(), st.booleans()), max_size=3,
                               unique_by=lambda t: t[0]),
                      st.one_of(st.none(), st.none(), ch), st.booleans()).map(
                lambda t: ("td", [[k, ty, r, ro] for k, ty, r, ro in t[0]], t[1], t[2])),
            st.lists(ch, min_size=2, max_size=3).map(lambda xs: ("union", xs)),
            st.lists(ch, min_size=1, max_size=3).map(lambda xs: ("unite", xs)),
            st.tuples(ch, st.lists(st.sampled_from(["m", "n", 1]), min_size=1, max_size=2)).map(
                lambda t: ("ann", t[0], t[1])),
        ]
        if callables:
            opts.append(st.tuples(st.lists(ch, max_size=2), ch).map(lambda t: ("call", t[0], t[1])))
        return st.one_of(*opts)

    base = leaves(any_ok=any_ok, typevars=typevars)
    return st.recursive(st.one_of(base, base, base, base, wide_union()), extend, max_leaves=max_leaves)


def permuted_union(ch):
    """Two unions with the same members in different order (equal by construction)."""
    return st.lists(ch, min_size=2, max_size=4).flatmap(
        lambda xs: st.permutations(xs).map(lambda ys: (("union", list(xs)), ("union", list(ys)))))


def reordered(r):
    """The same value written with every order-insensitive component reversed: union members and
    TypedDict items (equal by construction, at any nesting depth)."""
    if isinstance(r, (list, tuple)) and r and isinstance(r[0], str):
        tag = r[0]
        rest = [reordered(x) if isinstance(x, (list, tuple)) else x for x in r[1:]]
        if tag == "union" and rest and isinstance(rest[0], list):
            rest[0] = list(reversed(rest[0]))
        if tag == "td" and rest and isinstance(rest[0], list):
            rest[0] = list(reversed(rest[0]))
        return type(r)([tag] + rest) if isinstance(r, list) else (tag, *rest)
    if isinstance(r, (list, tuple)):
        return type(r)(reordered(x) if isinstance(x, (list, tuple)) else x for x in r)
    return r


def reordered_pairs(ch):
    """(r, reordered(r)) for recipes that contain a union or a TypedDict with >= 2 items."""
    def interesting(r):
        if isinstance(r, (list, tuple)):
            if r and r[0] in ("union", "td") and len(r) > 1 and isinstance(r[1], list) and len(r[1]) >= 2:
                return True
            return any(interesting(x) for x in r)
        return False
    return ch.filter(interesting).map(lambda r: (r, reordered(r)))


def contains_tag(r, tag):
    if isinstance(r, (list, tuple)):
        if r and r[0] == tag:
            return True
        return any(contains_tag(x, tag) for x in r)
    return False

"""Confirm an independently seeded change and run checks against it.

    python -m pv.seedcheck <worktree-with-SEED> <seed-id> <check IDs...> [--no-tests]

Copies SEED/{patch.diff,demo.py,meta.json} to /verif/seeded/<seed-id>/, verifies in scratch
copies of /repo that (a) the demo passes on the unchanged tree and fails with the patch, (b)
the repository's test-suite passes with the patch, then runs the given quick checks against
the patched copy (PV_REPO) and records everything in seeded/<seed-id>/meta.json.
"""

import json
import os
import shutil
import subprocess
import sys
import tempfile
from pathlib import Path

ROOT = Path(__file__).resolve().parent.parent


def copy_repo(dst):
    shutil.copytree("/repo", dst, ignore=shutil.ignore_patterns(".git", "__pycache__", "*.pyc", ".pytest_cache", "SEED"))


def run_demo(repo_dir, demo):
    d = os.path.join(repo_dir, "SEED")
    os.makedirs(d, exist_ok=True)
    shutil.copy(demo, os.path.join(d, "demo.py"))
    env = dict(os.environ, PYTHONPATH=repo_dir)
    p = subprocess.run([sys.executable, "SEED/demo.py"], cwd=repo_dir, env=env, capture_output=True, text=True, timeout=600)
    return p.returncode, (p.stdout + p.stderr)[-600:]


def main():
    args = [a for a in sys.argv[1:] if not a.startswith("--")]
    wt, sid, checks = args[0], args[1], args[2:]
    no_tests = "--no-tests" in sys.argv
    seed_dir = ROOT / "seeded" / sid
    seed_dir.mkdir(parents=True, exist_ok=True)
    for name in ("patch.diff", "demo.py", "meta.json"):
        src = os.path.join(wt, "SEED", name)
        if os.path.exists(src):
            shutil.copy(src, seed_dir / ("agent_meta.json" if name == "meta.json" else name))
    scratch = tempfile.mkdtemp(prefix="pv_seed_")
    record = {"seed_id": sid}
    try:
        clean, patched = os.path.join(scratch, "clean"), os.path.join(scratch, "patched")
        copy_repo(clean)
        copy_repo(patched)
        r = subprocess.run(["patch", "-p1", "-d", patched, "-i", str(seed_dir / "patch.diff")], capture_output=True, text=True)
        record["patch_applies"] = r.returncode == 0
        if r.returncode != 0:
            print("patch failed", r.stdout, r.stderr)
            return 2
        rc_clean, out_clean = run_demo(clean, seed_dir / "demo.py")
        rc_patched, out_patched = run_demo(patched, seed_dir / "demo.py")
        record["demo_exit_unchanged"] = rc_clean
        record["demo_exit_with_change"] = rc_patched
        record["demo_output_with_change"] = out_patched[-300:]
        print(f"demo: unchanged exit={rc_clean}, with change exit={rc_patched}")
        if not no_tests:
            t = subprocess.run([sys.executable, "-m", "pytest", "-q", "-p", "no:cacheprovider", "-n", "16", "pyanalyze"],
                               cwd=patched, env=dict(os.environ, PYTHONPATH=patched), capture_output=True, text=True)
            last = t.stdout.strip().splitlines()[-1] if t.stdout.strip() else t.stderr[-200:]
            record["repo_tests_with_change"] = last
            print("repo tests with change:", last)
        results = {}
        for c in checks:
            env = dict(os.environ, PV_REPO=patched, VERIF_SEED="1", PV_OUT=os.path.join(scratch, "out"))
            env.pop("PYTHONPATH", None)
            p = subprocess.run([str(ROOT / "check"), c, "--tier", "quick"], cwd=str(ROOT), env=env, capture_output=True, text=True)
            viol = [l for l in p.stdout.splitlines() if l.startswith("VIOLATION")]
            detail = [l.strip()[:260] for l in p.stdout.splitlines() if l.startswith("  ") and "|" in l][:3]
            results[c] = {"exit": p.returncode, "violations": len(viol), "first": detail}
            print(f"{c}: exit={p.returncode} violations={len(viol)}")
            for d in detail[:2]:
                print("    ", d)
        record["checks"] = results
        record["caught_by"] = [c for c, r in results.items() if r["exit"] == 1]
    finally:
        shutil.rmtree(scratch, ignore_errors=True)
    try:
        agent = json.load(open(seed_dir / "agent_meta.json"))
    except Exception:
        agent = {}
    meta = {"property": agent.get("property", sid.split("-")[0]), "summary": agent.get("summary"), "needs": agent.get("needs"),
            "agent_commands": agent.get("commands"), "confirmed": record}
    (seed_dir / "meta.json").write_text(json.dumps(meta, indent=1) + "\n")
    return 0


if __name__ == "__main__":
    sys.exit(main())

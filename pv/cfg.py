"""Control-flow skeletons for C09: IR, renderer, scripted execution, and an independent
reaching-definitions analysis in a strict and a liberal variant.

IR statements (tuples):
  ("assign", k) ("use", site) ("call",) ("pass",) ("break",) ("continue",) ("return",) ("raise",)
  ("if", body, orelse|None) ("while", body, orelse|None) ("whiletrue", body)
  ("for", body, orelse|None) ("try", body, handlers, orelse|None, final|None)
  ("with", "S"|"N", body)
  ("global", init)   only as the first statement: v is a module-level name of its own (`v_<function>`),
                     bound to 0 at module level when init is true, declared `global` in the function and in
                     its nested functions
"""

from __future__ import annotations

import itertools
import re

U = "U"  # the unbound state
CLOSURE_SITE = 99  # site id of the read inside the nested function `inner`

SIMPLE = ("assign", "assignn", "use", "call", "calli", "pass", "break", "continue", "return", "raise", "global")


# ----------------------------------------------------------------- rendering


def render_block(stmts, indent, out):
    pad = "    " * indent
    if not stmts:
        out.append(pad + "pass")
        return
    for s in stmts:
        t = s[0]
        if t == "assign":
            out.append(f"{pad}v = {s[1]}")
        elif t == "assignn":
            out.append(f"{pad}setv{s[1]}()")
        elif t == "use":
            out.append(f"{pad}site(v, {s[1]})")
        elif t == "call":
            out.append(f"{pad}call()")
        elif t == "calli":
            out.append(f"{pad}inner()")
        elif t == "pass":
            out.append(f"{pad}pass")
        elif t == "global":
            out.append(f"{pad}global v")
        elif t in ("break", "continue", "return"):
            out.append(f"{pad}{t}")
        elif t == "raise":
            out.append(f"{pad}raise Boom()")
        elif t == "if":
            out.append(f"{pad}if cond():")
            render_block(s[1], indent + 1, out)
            if s[2] is not None:
                out.append(f"{pad}else:")
                render_block(s[2], indent + 1, out)
        elif t == "while":
            out.append(f"{pad}while cond():")
            render_block(s[1], indent + 1, out)
            if s[2] is not None:
                out.append(f"{pad}else:")
                render_block(s[2], indent + 1, out)
        elif t == "whiletrue":
            out.append(f"{pad}while True:")
            out.append(f"{pad}    tick()")
            render_block(s[1], indent + 1, out)
        elif t == "for":
            out.append(f"{pad}for _i in it():")
            render_block(s[1], indent + 1, out)
            if s[2] is not None:
                out.append(f"{pad}else:")
                render_block(s[2], indent + 1, out)
        elif t == "try":
            out.append(f"{pad}try:")
            render_block(s[1], indent + 1, out)
            for h in s[2]:
                out.append(f"{pad}except Boom:")
                render_block(h, indent + 1, out)
            if s[3] is not None:
                out.append(f"{pad}else:")
                render_block(s[3], indent + 1, out)
            if s[4] is not None:
                out.append(f"{pad}finally:")
                render_block(s[4], indent + 1, out)
        elif t == "with":
            # s[1] lists the context managers of one with statement, left to right: S suppresses Boom, N does not
            out.append(f"{pad}with {', '.join(('Suppress' if c == 'S' else 'NoSuppress') + '()' for c in s[1])}:")
            render_block(s[2], indent + 1, out)
        else:
            raise ValueError(s)


def has_closure(stmts):
    return any(s[0] == "calli" for s in walk(stmts))


def global_mode(stmts):
    """None for a local variable, else the `init` flag of the leading ("global", init)."""
    return stmts[0][1] if stmts and stmts[0][0] == "global" else None


def global_name(name):
    return f"v_{name}"


_V = re.compile(r"\bv\b")


def render_function(name, stmts):
    out = [f"def {name}():"]
    gm = global_mode(stmts)
    if has_closure(stmts):
        # a nested function reading v; ("calli",) statements call it
        out += ["    def inner():", f"        site(v, {CLOSURE_SITE})"]
    for st in walk(stmts):
        if st[0] == "assignn":
            # ("assignn", k): `v = k` done by a nested function through `nonlocal v` (`global v` in global mode)
            out += [f"    def setv{st[1]}():", "        global v" if gm is not None else "        nonlocal v", f"        v = {st[1]}"]
    render_block(stmts, 1, out)
    if gm is not None:
        # the variable is a module-level name private to this function
        out = [_V.sub(global_name(name), l) for l in out]
        if gm:
            out.insert(0, f"{global_name(name)} = 0")
    return out


def walk(stmts):
    for s in stmts:
        yield s
        t = s[0]
        if t in ("if", "while", "for"):
            yield from walk(s[1])
            if s[2] is not None:
                yield from walk(s[2])
        elif t == "whiletrue":
            yield from walk(s[1])
        elif t == "try":
            yield from walk(s[1])
            for h in s[2]:
                yield from walk(h)
            for b in (s[3], s[4]):
                if b is not None:
                    yield from walk(b)
        elif t == "with":
            yield from walk(s[2])


def renumber(stmts, next_def=None, next_site=None):
    """Give assignments distinct literals and uses distinct site ids (per function)."""
    if next_def is None:
        next_def, next_site = itertools.count(1), itertools.count(0)

    def blk(b):
        return None if b is None else renumber(b, next_def, next_site)

    out = []
    for s in stmts:
        t = s[0]
        if t in ("assign", "assignn"):
            out.append((t, next(next_def)))
        elif t == "use":
            out.append(("use", next(next_site)))
        elif t in ("if", "while", "for"):
            out.append((t, blk(s[1]), blk(s[2])))
        elif t == "whiletrue":
            out.append((t, blk(s[1])))
        elif t == "try":
            out.append((t, blk(s[1]), [blk(h) for h in s[2]], blk(s[3]), blk(s[4])))
        elif t == "with":
            out.append((t, s[1], blk(s[2])))
        else:
            out.append(s)
    return out


# ----------------------------------------------------------------- static analysis


class Out:
    __slots__ = ("normal", "brk", "cont", "ret", "exc", "nexc")

    def __init__(self):
        self.normal = set()
        self.brk = set()
        self.cont = set()
        self.ret = set()
        self.exc = set()   # Boom: caught by `except Boom`, swallowed by Suppress
        self.nexc = set()  # NameError from reading the unbound name: only `finally` sees it

    def absorb_abrupt(self, other):
        self.brk |= other.brk
        self.cont |= other.cont
        self.ret |= other.ret
        self.exc |= other.exc
        self.nexc |= other.nexc


class Analysis:
    """Reaching definitions by structural abstract interpretation.

    strict : exceptions arise only at call() and raise; `while True` leaves only by break.
    liberal: inside a try / with body an exception may arise at every statement boundary
             (every state visited in the body, nested statements included), and every loop may
             exit after any iteration.
    """

    def __init__(self, liberal, all_defs=()):
        self.liberal = liberal
        self.uses = {}
        self.reached_defs = set()
        self.all_defs = set(all_defs)

    def block(self, stmts, S, trace=None):
        """Run a block from state-set S.  trace (a set) collects every state visited."""
        out = Out()
        cur = set(S)
        if trace is not None:
            trace |= cur
        for s in stmts:
            if not cur:
                break
            r = self.stmt(s, cur, trace)
            out.absorb_abrupt(r)
            cur = r.normal
            if trace is not None:
                trace |= cur
        out.normal = cur
        return out

    def stmt(self, s, S, trace):
        t = s[0]
        r = Out()
        if t in ("assign", "assignn"):
            # a nested function assigning through `nonlocal` acts like the assignment itself at the call
            self.reached_defs.add(s[1])
            r.normal = {s[1]}
        elif t == "use":
            self.uses.setdefault(s[1], set()).update(S)
            # reading the unbound name raises NameError: execution does not continue
            r.normal = set(S) if self.liberal else set(S) - {U}
            if U in S:
                r.nexc = {U}
        elif t == "call":
            r.normal = set(S)
            r.exc = set(S)
        elif t == "calli":
            # the nested function reads v at call time
            self.uses.setdefault(CLOSURE_SITE, set()).update(S)
            r.normal = set(S) if self.liberal else set(S) - {U}
            if U in S:
                r.nexc = {U}
        elif t == "pass":
            r.normal = set(S)
        elif t == "global":
            # module-level name: bound to 0 at import (or unbound); the liberal variant lets any assignment of
            # the function be visible on entry (the name outlives the call)
            r.normal = {0} if s[1] else {U}
            if s[1]:
                self.reached_defs.add(0)
            if self.liberal:
                r.normal |= self.all_defs
        elif t == "break":
            r.brk = set(S)
        elif t == "continue":
            r.cont = set(S)
        elif t == "return":
            r.ret = set(S)
        elif t == "raise":
            r.exc = set(S)
        elif t == "if":
            a = self.block(s[1], S, trace)
            b = self.block(s[2] or [], S, trace)
            r.normal = a.normal | b.normal
            r.absorb_abrupt(a)
            r.absorb_abrupt(b)
        elif t in ("while", "for", "whiletrue"):
            entry = set(S)
            body = Out()
            while True:
                body = self.block(s[1], entry, trace)
                new = entry | body.normal | body.cont
                if new == entry:
                    break
                entry = new
            r.ret |= body.ret
            r.exc |= body.exc
            r.nexc |= body.nexc
            if t == "whiletrue":
                r.normal = set(body.brk)
                if self.liberal:
                    r.normal |= entry
            else:
                orelse = self.block(s[2] or [], entry, trace)
                r.normal = orelse.normal | body.brk
                r.absorb_abrupt(orelse)
        elif t == "try":
            btrace = set()
            body = self.block(s[1], S, btrace)
            raised = set(body.exc)
            if self.liberal:
                raised |= btrace
            res = Out()
            res.brk |= body.brk
            res.cont |= body.cont
            res.ret |= body.ret
            res.nexc |= body.nexc
            rest_trace = set()  # states visited in handlers / else (liberal: may raise there too)
            if s[2]:
                for h in s[2]:
                    hr = self.block(h, raised, rest_trace)
                    res.normal |= hr.normal
                    res.absorb_abrupt(hr)
            else:
                res.exc |= raised
            orelse = self.block(s[3] or [], body.normal, rest_trace)
            res.normal |= orelse.normal
            res.absorb_abrupt(orelse)
            if self.liberal:
                # an exception raised anywhere in a handler or the else block leaves the statement
                res.exc |= rest_trace
            if trace is not None:
                trace |= btrace | rest_trace
            if s[4] is None:
                return res
            # finally runs on every way out
            for kind in ("normal", "brk", "cont", "ret", "exc", "nexc"):
                states = getattr(res, kind)
                if not states:
                    continue
                fr = self.block(s[4], states, trace)
                getattr(r, kind).update(fr.normal)
                r.absorb_abrupt(fr)
        elif t == "with":
            btrace = set()
            body = self.block(s[2], S, btrace)
            if trace is not None:
                trace |= btrace
            raised = set(body.exc)
            if self.liberal:
                raised |= btrace
            r.normal = set(body.normal)
            r.brk |= body.brk
            r.cont |= body.cont
            r.ret |= body.ret
            r.nexc |= body.nexc
            if "S" in s[1]:
                r.normal |= raised  # Boom is swallowed (by whichever item suppresses), execution continues after the block
                if self.liberal:
                    r.exc |= raised  # __exit__ -> bool: may or may not suppress
            else:
                r.exc |= raised
        else:
            raise ValueError(s)
        return r


def analyse(stmts, liberal, want_defs=False):
    all_defs = {s[1] for s in walk(stmts) if s[0] in ("assign", "assignn")}
    a = Analysis(liberal, all_defs)
    a.block(stmts, {U}, set() if liberal else None)
    if liberal and CLOSURE_SITE in a.uses:
        # a closure variable is looked up flow-insensitively: any definition of the enclosing
        # function (or none yet) may be visible when the nested function runs
        a.uses[CLOSURE_SITE] |= all_defs | ({U} if not global_mode(stmts) else set())
    if want_defs:
        return a.uses, a.reached_defs
    return a.uses


# ----------------------------------------------------------------- scripted execution


def compile_functions(funcs):
    """funcs: {name: stmts}.  Returns namespace with compiled functions."""
    import pv_vocab

    lines = ["from pv_vocab import *"]
    for name, stmts in funcs.items():
        lines += render_function(name, stmts)
    ns = {}
    exec(compile("\n".join(lines) + "\n", "<cfg>", "exec"), ns)
    return ns, pv_vocab


def scripts(max_len):
    yield ()
    for n in range(1, max_len + 1):
        for bits in itertools.product((0, 1), repeat=n):
            if bits[-1] == 0:
                continue  # trailing zeros are the default
            yield bits


def execute(fn, vocab, script, site_lines=None, reset=None):
    """Run fn under a script.  Returns {site: set(defs)} including U for UnboundLocalError.
    reset = (namespace, global name, init flag) restores the module-level binding first."""
    if reset is not None:
        ns, gname, init = reset
        if init:
            ns[gname] = 0
        else:
            ns.pop(gname, None)
    vocab._script[:] = list(script)
    vocab._trace[:] = []
    vocab._ticks[0] = 0
    vocab._cut[0] = False
    unbound_line = None
    try:
        fn()
    except NameError as e:
        tb = e.__traceback__
        while tb.tb_next is not None:
            tb = tb.tb_next
        unbound_line = None if vocab._cut[0] else tb.tb_lineno
    except (vocab.Boom, vocab.Cut):
        pass
    obs = {}
    for n, x in vocab._trace:
        obs.setdefault(n, set()).add(x)
    return obs, unbound_line


# ----------------------------------------------------------------- compact encoding / reduction

_ENC = {"assign": "v=", "assignn": "nonlocal-v=", "use": "use", "call": "call", "calli": "inner()", "return": "ret", "raise": "raise", "break": "brk",
        "continue": "cont", "pass": "pass"}


def _enc_simple(s):
    if s[0] == "global":
        return "global-v=0" if s[1] else "global-v"
    return _ENC[s[0]]


def encode(stmts):
    parts = []
    for s in stmts:
        t = s[0]
        if t in _ENC or t == "global":
            parts.append(_enc_simple(s))
        elif t in ("if", "while", "for"):
            parts.append(f"{t}{{{encode(s[1])}}}" + (f"else{{{encode(s[2])}}}" if s[2] is not None else ""))
        elif t == "whiletrue":
            parts.append(f"loop{{{encode(s[1])}}}")
        elif t == "try":
            x = f"try{{{encode(s[1])}}}" + "".join(f"except{{{encode(h)}}}" for h in s[2])
            if s[3] is not None:
                x += f"else{{{encode(s[3])}}}"
            if s[4] is not None:
                x += f"finally{{{encode(s[4])}}}"
            parts.append(x)
        elif t == "with":
            parts.append(f"with{s[1]}{{{encode(s[2])}}}")
    return ";".join(parts)


def _valid(stmts, in_loop=False, top=True):
    """break / continue only inside loops; blocks non-empty."""
    if not stmts:
        return False
    for i, s in enumerate(stmts):
        t = s[0]
        if t == "global" and not (top and i == 0 and len(stmts) > 1):
            return False
        if t in ("break", "continue") and not in_loop:
            return False
        if t in ("break", "continue", "return", "raise") and i != len(stmts) - 1:
            return False  # no dead statements
        if t == "if":
            if not _valid(s[1], in_loop, False) or (s[2] is not None and not _valid(s[2], in_loop, False)):
                return False
        elif t in ("while", "for"):
            if not _valid(s[1], True, False) or (s[2] is not None and not _valid(s[2], in_loop, False)):
                return False
        elif t == "whiletrue":
            if not _valid(s[1], True, False):
                return False
        elif t == "try":
            blocks = [s[1]] + list(s[2]) + [b for b in (s[3], s[4]) if b is not None]
            if not all(_valid(b, in_loop, False) for b in blocks):
                return False
            if not s[2] and s[4] is None:
                return False
            if s[3] is not None and not s[2]:
                return False
        elif t == "with":
            if not _valid(s[2], in_loop, False):
                return False
    return True


def nonlocal_ok(stmts):
    """`nonlocal v` needs a binding of v in the enclosing function."""
    kinds = {s[0] for s in walk(stmts)}
    return "assignn" not in kinds or "assign" in kinds or global_mode(stmts) is not None


def variants(stmts):
    """One-step reductions of a block (list of statements)."""
    n = len(stmts)
    for i in range(n):
        if n > 1:
            yield stmts[:i] + stmts[i + 1:]
        s = stmts[i]
        t = s[0]
        subs = []
        if t in ("if", "while", "for"):
            subs = [s[1]] + ([s[2]] if s[2] is not None else [])
            if s[2] is not None:
                yield stmts[:i] + [(t, s[1], None)] + stmts[i + 1:]
        elif t == "whiletrue":
            subs = [s[1]]
        elif t == "try":
            subs = [s[1]] + list(s[2]) + [b for b in (s[3], s[4]) if b is not None]
            if s[3] is not None:
                yield stmts[:i] + [(t, s[1], s[2], None, s[4])] + stmts[i + 1:]
            if s[4] is not None and s[2]:
                yield stmts[:i] + [(t, s[1], s[2], s[3], None)] + stmts[i + 1:]
            if len(s[2]) > 1 or (s[2] and s[4] is not None and s[3] is None):
                for k in range(len(s[2])):
                    hs = s[2][:k] + s[2][k + 1:]
                    if hs or s[4] is not None:
                        yield stmts[:i] + [(t, s[1], hs, s[3] if hs else None, s[4])] + stmts[i + 1:]
        elif t == "with":
            subs = [s[2]]
        # unwrap: replace the compound by one of its blocks
        for b in subs:
            yield stmts[:i] + list(b) + stmts[i + 1:]
        # recurse into sub-blocks
        if t in ("if", "while", "for"):
            for v in variants(s[1]):
                yield stmts[:i] + [(t, v, s[2])] + stmts[i + 1:]
            if s[2] is not None:
                for v in variants(s[2]):
                    yield stmts[:i] + [(t, s[1], v)] + stmts[i + 1:]
        elif t == "whiletrue":
            for v in variants(s[1]):
                yield stmts[:i] + [(t, v)] + stmts[i + 1:]
        elif t == "try":
            for v in variants(s[1]):
                yield stmts[:i] + [(t, v, s[2], s[3], s[4])] + stmts[i + 1:]
            for k, h in enumerate(s[2]):
                for v in variants(h):
                    yield stmts[:i] + [(t, s[1], s[2][:k] + [v] + s[2][k + 1:], s[3], s[4])] + stmts[i + 1:]
            if s[3] is not None:
                for v in variants(s[3]):
                    yield stmts[:i] + [(t, s[1], s[2], v, s[4])] + stmts[i + 1:]
            if s[4] is not None:
                for v in variants(s[4]):
                    yield stmts[:i] + [(t, s[1], s[2], s[3], v)] + stmts[i + 1:]
        elif t == "with":
            for v in variants(s[2]):
                yield stmts[:i] + [(t, s[1], v)] + stmts[i + 1:]


def pass_variants(stmts):
    """Replace one atom by `pass` (a block cannot be emptied otherwise); tried only when no structural
    reduction applies any more."""
    for i, s in enumerate(stmts):
        t = s[0]
        if t in ("call", "calli", "assign", "assignn", "use", "return", "raise", "break", "continue"):
            yield stmts[:i] + [("pass",)] + stmts[i + 1:]
        elif t in ("if", "while", "for"):
            for v in pass_variants(s[1]):
                yield stmts[:i] + [(t, v, s[2])] + stmts[i + 1:]
            if s[2] is not None:
                for v in pass_variants(s[2]):
                    yield stmts[:i] + [(t, s[1], v)] + stmts[i + 1:]
        elif t == "whiletrue":
            for v in pass_variants(s[1]):
                yield stmts[:i] + [(t, v)] + stmts[i + 1:]
        elif t == "try":
            for v in pass_variants(s[1]):
                yield stmts[:i] + [(t, v, s[2], s[3], s[4])] + stmts[i + 1:]
            for k, h in enumerate(s[2]):
                for v in pass_variants(h):
                    yield stmts[:i] + [(t, s[1], s[2][:k] + [v] + s[2][k + 1:], s[3], s[4])] + stmts[i + 1:]
            if s[3] is not None:
                for v in pass_variants(s[3]):
                    yield stmts[:i] + [(t, s[1], s[2], v, s[4])] + stmts[i + 1:]
            if s[4] is not None:
                for v in pass_variants(s[4]):
                    yield stmts[:i] + [(t, s[1], s[2], s[3], v)] + stmts[i + 1:]
        elif t == "with":
            for v in pass_variants(s[2]):
                yield stmts[:i] + [(t, s[1], v)] + stmts[i + 1:]


def reduce(stmts, still_fails, max_steps=4000):
    """Greedy structural delta debugging."""
    cur = stmts
    steps = 0
    progress = True
    while progress and steps < max_steps:
        progress = False
        for v in itertools.chain(variants(cur), pass_variants(cur)):
            if not _valid(v) or not nonlocal_ok(v):
                continue
            steps += 1
            v = renumber(v)
            if still_fails(v):
                cur = v
                progress = True
                break
            if steps >= max_steps:
                break
    return cur


def signature(stmts):
    """Coarse set of constructs present (root-cause signature of a minimal skeleton).
    Tokens: L (while/for) INF (while True) LELSE LJ (break/continue) EXIT (return/raise) CALL
    TRY EXC TELSE FIN WS WN IF IELSE; JT:<c> for every with / try part a break or continue passes
    through on the way to its loop (WS WN TRY EXC TELSE FIN), LIN:<c> for every with / try part
    that encloses a loop containing a jump."""
    toks = set()

    def jumps(b, through):
        """through: with/try parts entered since the innermost loop."""
        found = False
        for s in b or []:
            t = s[0]
            if t in ("break", "continue"):
                found = True
                for c in through:
                    toks.add("JT:" + c)
            elif t == "if":
                found |= jumps(s[1], through) | jumps(s[2], through)
            elif t in ("while", "for", "whiletrue"):
                inner = jumps(s[1], [])
                if inner:
                    for c in through:
                        toks.add("LIN:" + c)
                if t != "whiletrue":
                    found |= jumps(s[2], through)
            elif t == "try":
                found |= jumps(s[1], through + ["TRY"])
                for h in s[2]:
                    found |= jumps(h, through + ["EXC"])
                found |= jumps(s[3], through + ["TELSE"]) | jumps(s[4], through + ["FIN"])
            elif t == "with":
                found |= jumps(s[2], through + ["W" + ("S" if "S" in s[1] else "N")])
        return found
    jumps(stmts, [])

    def go(b):
        for s in b or []:
            t = s[0]
            if t in ("return", "raise"):
                toks.add("EXIT")
            elif t in ("break", "continue"):
                toks.add("LJ")
            elif t == "call":
                toks.add("CALL")
            elif t == "calli":
                toks.add("CLOSURE")
            elif t == "assignn":
                toks.add("NONLOCAL")
            elif t == "global":
                toks.add("GLOBAL")
            elif t == "if":
                toks.add("IF")
                go(s[1])
                if s[2] is not None:
                    toks.add("IELSE")
                    go(s[2])
            elif t in ("while", "for"):
                toks.add("L")
                go(s[1])
                if s[2] is not None:
                    toks.add("LELSE")
                    go(s[2])
            elif t == "whiletrue":
                toks.add("INF")
                go(s[1])
            elif t == "try":
                toks.add("TRY")
                go(s[1])
                if s[2]:
                    toks.add("EXC")
                    for h in s[2]:
                        go(h)
                if s[3] is not None:
                    toks.add("TELSE")
                    go(s[3])
                if s[4] is not None:
                    toks.add("FIN")
                    go(s[4])
            elif t == "with":
                toks.add("W" + ("S" if "S" in s[1] else "N"))
                if len(s[1]) > 1:
                    toks.add("WMULTI")
                go(s[2])
    go(stmts)
    return ",".join(sorted(toks)) or "flat"

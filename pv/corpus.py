"""Seed corpus for the 'any program' generators (C10, C11, C12, C16): the bodies of the
repository's own @assert_passes / @assert_fails test functions, extracted by source, plus
AST-level mutations of them.  Snippets are read from $PV_REPO at run time (nothing is copied
into /verif)."""

from __future__ import annotations

import ast
import copy
import functools
import glob
import os
import textwrap

from hypothesis import strategies as st

REPO = os.environ.get("PV_REPO", "/repo")

PRELUDE = (
    "from pyanalyze.value import *\n"
    "from pyanalyze.implementation import assert_is_value, dump_value\n"
    "from pyanalyze.extensions import *\n"
)


@functools.lru_cache(maxsize=1)
def snippets():
    """List of (origin, source).  The source is a module: a prelude providing the helper names
    the test base injects, followed by the dedented body of the test method."""
    out = []
    for path in sorted(glob.glob(os.path.join(REPO, "pyanalyze", "test_*.py"))):
        try:
            text = open(path).read()
            tree = ast.parse(text)
        except (OSError, SyntaxError):
            continue
        lines = text.splitlines()
        for node in ast.walk(tree):
            if not isinstance(node, ast.FunctionDef):
                continue
            decos = [ast.unparse(d) for d in node.decorator_list]
            if not any(d.startswith(("assert_passes", "assert_fails")) for d in decos):
                continue
            if not node.body:
                continue
            first, last = node.body[0].lineno, node.body[-1].end_lineno
            body = textwrap.dedent("\n".join(lines[first - 1:last]))
            try:
                ast.parse(body)
            except SyntaxError:
                continue
            out.append((f"{os.path.basename(path)}::{node.name}", PRELUDE + body + "\n"))
    return out


# ----------------------------------------------------------------- AST mutations


class _Collector(ast.NodeVisitor):
    """Collect mutation sites that live inside function bodies (never executed at import)."""

    def __init__(self):
        self.depth = 0
        self.may_run = 0
        self.sites = []

    def visit_FunctionDef(self, node):
        # decorators, defaults and annotations are evaluated at definition time: only the body
        # of a function is 'inside'
        for d in node.decorator_list:
            self.visit(d)
        # special methods, properties and other decorated functions may be *executed* by the checker (attribute
        # lookup runs descriptors, len()/bool() of known objects ...): code placed there is the module's own
        # code, and an operation that never finishes there is not the checker's non-termination
        special = (node.name.startswith("__") and node.name.endswith("__")) or bool(node.decorator_list)
        self.depth += 1
        self.may_run += special
        for s in node.body:
            self.visit(s)
        self.may_run -= special
        self.depth -= 1

    visit_AsyncFunctionDef = visit_FunctionDef

    def visit_Lambda(self, node):
        self.depth += 1
        self.visit(node.body)
        self.depth -= 1

    def visit_ClassDef(self, node):
        base_names = {b.id for b in node.bases if isinstance(b, ast.Name)} | {b.attr for b in node.bases if isinstance(b, ast.Attribute)}
        if base_names & _plugin_base_names():
            # a plugin class written by the user (CustomCheck subclass ...): its methods are called by
            # pyanalyze, so breaking them is breaking the plugin contract, not the program under check
            return
        if self.depth == 0:
            # constants assigned in a class body that runs at import (enum members, class attributes):
            # only constant-for-constant / constant-for-display mutations are applied there
            for st_ in node.body:
                if isinstance(st_, (ast.Assign, ast.AnnAssign)) and st_.value is not None:
                    for c in ast.walk(st_.value):
                        if isinstance(c, ast.Constant):
                            c._pv_import_time = True
                            self.sites.append(c)
        self.generic_visit(node)

    def visit_Call(self, node):
        # arguments of constructors of pyanalyze's own Value classes (the expected value in
        # assert_is_value(x, KnownValue(...)), CanAssignError(...) in a user plugin) are test scaffolding /
        # plugin code, not the program under check: malformed arguments there are API misuse by the caller
        if isinstance(node.func, ast.Name) and node.func.id in _value_class_names():
            return
        self.generic_visit(node)

    def generic_visit(self, node):
        if self.depth > 0 and isinstance(node, (ast.expr, ast.stmt)):
            node._pv_may_run = self.may_run > 0
            self.sites.append(node)
        super().generic_visit(node)


_VALUE_NAMES = None


def _value_class_names():
    global _VALUE_NAMES
    if _VALUE_NAMES is None:
        import pyanalyze.value as _v

        _VALUE_NAMES = {n for n, o in vars(_v).items() if isinstance(o, type) and getattr(o, "__module__", "") == "pyanalyze.value"}
    return _VALUE_NAMES


_PLUGIN_BASES = None


def _plugin_base_names():
    global _PLUGIN_BASES
    if _PLUGIN_BASES is None:
        import pyanalyze.extensions as _e

        _PLUGIN_BASES = {n for n, o in vars(_e).items() if isinstance(o, type) and getattr(o, "__module__", "") == "pyanalyze.extensions"}
        _PLUGIN_BASES |= _value_class_names()
    return _PLUGIN_BASES


MUTATIONS = ["swap-operands", "star-wrap", "drop-arg", "dup-arg", "const-change", "name-change", "into-finally",
             "negate", "subscript", "attr", "call-it", "await", "delete-stmt", "dup-stmt", "walrus", "fstring",
             "compare-chain", "keyword-arg", "starstar", "ann-assign", "listcomp", "lambda", "yield",
             "fstring-spec", "fstring-nested-spec", "percent-format", "dot-format", "augassign", "slice", "dict-spread",
             "unpack-assign", "del-target", "global-stmt", "async-for", "with-item", "match-stmt", "raise-from",
             "const-to-list", "const-to-dict", "const-to-set", "const-to-big", "const-to-tuple", "expensive-arith"]

# templates for the format operators: odd but syntactically harmless spellings (non-ASCII digits as field names, widths
# with more digits than int() accepts, non-ASCII bytes in mapping keys, nested braces)
PERCENT_TEMPLATES = ["%s and %5.2f %(k)s", "%" + "9" * 5000 + "d", b"%(\xff)s and %(k)s", "%(\u00b2)s", "%." + "7" * 4400 + "f", b"%\xffd", "%*.*f %c"]
FORMAT_TEMPLATES = ["{} {0} {a.b} {!z}", "{\u00b2}", "{0[\u00b2]} {\u0663}", "{:{}} {:{{}", "{0.\u00b2}", "{" + "9" * 5000 + "}"]

# literal integer arithmetic whose result has more than a million bits (never placed in code that runs at import)
EXPENSIVE = ["(-3) ** (10 ** 9)", "2 ** (10 ** 30)", "(-2) ** (2 ** 40)", "1 << (10 ** 12)", "(-1) << (10 ** 12)",
             "(10 ** 30) ** (10 ** 30)", "-(7 ** (10 ** 8))", "(-(10 ** 20)) ** (10 ** 6)", "(3 ** 40) ** (-(-(10 ** 9)))",
             "(-5).__pow__(10 ** 9)", "int.__pow__(-3, 10 ** 9)", "(10 ** 9).__rpow__(-3)", "(10 ** 12).__rlshift__(-1)"]


def mutate(src, choices):
    """Apply mutations given as [(site index fraction 0..1, mutation name), ...]; returns new
    source or None if nothing could be applied."""
    tree = ast.parse(src)
    changed = False
    for frac, name in choices:
        col = _Collector()
        col.visit(tree)
        if not col.sites:
            return None
        cands = [n for n in col.sites if applicable(n, name)]
        if not cands:
            continue
        target = cands[int(frac * (len(cands) - 1))]
        new = apply_one(target, name)
        if new is None:
            continue
        replace(tree, target, new)
        changed = True
    if not changed:
        return None
    ast.fix_missing_locations(tree)
    try:
        out = ast.unparse(tree)
        compile(out, "<mutated>", "exec")
        return out + "\n"
    except Exception:
        return None


def applicable(n, name):
    if getattr(n, "_pv_import_time", False) and not name.startswith("const-"):
        return False
    if name == "swap-operands":
        return isinstance(n, (ast.BinOp, ast.Compare)) and (not isinstance(n, ast.Compare) or len(n.ops) == 1)
    if name in ("star-wrap", "drop-arg", "dup-arg", "keyword-arg", "starstar"):
        return isinstance(n, ast.Call) and (n.args or name in ("keyword-arg", "starstar"))
    if name in ("const-change", "const-to-list", "const-to-dict", "const-to-set", "const-to-big", "const-to-tuple"):
        return isinstance(n, ast.Constant)
    if name == "expensive-arith":
        return isinstance(n, ast.Constant) and not isinstance(n.value, (str, bytes)) and not getattr(n, "_pv_may_run", False)
    if name == "name-change":
        return isinstance(n, ast.Name) and isinstance(n.ctx, ast.Load)
    if name in ("into-finally", "delete-stmt", "dup-stmt"):
        return isinstance(n, (ast.Expr, ast.Assign, ast.Return, ast.AugAssign, ast.If))
    if name in ("augassign", "unpack-assign", "del-target", "global-stmt", "async-for", "with-item", "match-stmt", "raise-from"):
        return isinstance(n, (ast.Expr, ast.Assign, ast.Return))
    if name in ("negate", "subscript", "attr", "call-it", "await", "walrus", "fstring", "compare-chain", "listcomp", "lambda", "yield",
                "fstring-spec", "fstring-nested-spec", "percent-format", "dot-format", "slice", "dict-spread"):
        return isinstance(n, ast.expr) and isinstance(getattr(n, "ctx", ast.Load()), ast.Load) and not isinstance(
            n, (ast.Starred, ast.JoinedStr, ast.FormattedValue, ast.Slice))
    if name == "ann-assign":
        return isinstance(n, ast.Assign) and len(n.targets) == 1 and isinstance(n.targets[0], ast.Name)
    return False


def apply_one(n, name):
    c = copy.deepcopy
    if name == "swap-operands":
        if isinstance(n, ast.BinOp):
            return ast.BinOp(left=c(n.right), op=n.op, right=c(n.left))
        return ast.Compare(left=c(n.comparators[0]), ops=n.ops, comparators=[c(n.left)])
    if name == "star-wrap":
        m = c(n)
        m.args[-1] = ast.Starred(value=m.args[-1], ctx=ast.Load()) if not isinstance(m.args[-1], ast.Starred) else m.args[-1]
        return m
    if name == "drop-arg":
        m = c(n)
        m.args.pop()
        return m
    if name == "dup-arg":
        m = c(n)
        m.args.append(c(m.args[0]))
        return m
    if name == "keyword-arg":
        m = c(n)
        m.keywords.append(ast.keyword(arg="zz", value=ast.Constant(1)))
        return m
    if name == "starstar":
        m = c(n)
        m.keywords.append(ast.keyword(arg=None, value=ast.Dict(keys=[ast.Constant("a")], values=[ast.Constant(1)])))
        return m
    if name == "const-change":
        v = n.value
        new = {int: "x", str: 1, bool: None, type(None): 0, float: b"b", bytes: 1.5}.get(type(v), 0)
        return ast.Constant(new)
    if name == "const-to-list":
        return ast.List(elts=[c(n), ast.Constant(2)], ctx=ast.Load())
    if name == "const-to-dict":
        return ast.Dict(keys=[c(n)], values=[ast.List(elts=[], ctx=ast.Load())])
    if name == "const-to-set":
        return ast.Set(elts=[c(n), ast.Constant("s")])
    if name == "const-to-tuple":
        return ast.Tuple(elts=[c(n), ast.List(elts=[c(n)], ctx=ast.Load())], ctx=ast.Load())
    if name == "expensive-arith":
        k = (getattr(n, "lineno", 0) * 7 + getattr(n, "col_offset", 0)) % len(EXPENSIVE)
        return ast.parse(EXPENSIVE[k], mode="eval").body
    if name == "const-to-big":
        return ast.BinOp(left=ast.Constant(10), op=ast.Pow(), right=ast.Constant(30))
    if name == "name-change":
        return ast.Name(id="undefined_name_zz" if n.id != "undefined_name_zz" else "x", ctx=ast.Load())
    if name == "into-finally":
        return ast.Try(body=[ast.Pass()], handlers=[], orelse=[], finalbody=[c(n)])
    if name == "delete-stmt":
        return ast.Pass()
    if name == "dup-stmt":
        return ast.If(test=ast.Constant(True), body=[c(n), c(n)], orelse=[])
    if name == "negate":
        return ast.UnaryOp(op=ast.Not(), operand=c(n))
    if name == "subscript":
        return ast.Subscript(value=c(n), slice=ast.Constant(0), ctx=ast.Load())
    if name == "attr":
        return ast.Attribute(value=c(n), attr="nope", ctx=ast.Load())
    if name == "call-it":
        return ast.Call(func=c(n), args=[ast.Constant(1)], keywords=[])
    if name == "await":
        return ast.Call(func=ast.Name("len", ast.Load()), args=[c(n)], keywords=[])
    if name == "walrus":
        return ast.NamedExpr(target=ast.Name("w_zz", ast.Store()), value=c(n))
    if name == "fstring":
        return ast.JoinedStr(values=[ast.Constant("a"), ast.FormattedValue(value=c(n), conversion=-1, format_spec=None)])
    if name == "fstring-spec":
        spec = ast.JoinedStr(values=[ast.Constant(">10")])
        return ast.JoinedStr(values=[ast.FormattedValue(value=c(n), conversion=-1, format_spec=spec)])
    if name == "fstring-nested-spec":
        spec = ast.JoinedStr(values=[ast.FormattedValue(value=ast.Constant(8), conversion=-1, format_spec=None), ast.Constant(".2f")])
        return ast.JoinedStr(values=[ast.Constant("v="), ast.FormattedValue(value=c(n), conversion=114, format_spec=spec)])
    if name == "percent-format":
        k = (getattr(n, "lineno", 0) * 7 + getattr(n, "col_offset", 0)) % len(PERCENT_TEMPLATES)
        return ast.BinOp(left=ast.Constant(PERCENT_TEMPLATES[k]), op=ast.Mod(), right=c(n))
    if name == "dot-format":
        k = (getattr(n, "lineno", 0) * 7 + getattr(n, "col_offset", 0)) % len(FORMAT_TEMPLATES)
        return ast.Call(func=ast.Attribute(value=ast.Constant(FORMAT_TEMPLATES[k]), attr="format", ctx=ast.Load()), args=[c(n)], keywords=[])
    if name == "slice":
        return ast.Subscript(value=c(n), slice=ast.Slice(lower=ast.Constant(1), upper=None, step=ast.Constant("x")), ctx=ast.Load())
    if name == "dict-spread":
        return ast.Dict(keys=[None, ast.Constant("k")], values=[c(n), c(n)])
    if name == "augassign" and isinstance(n, ast.stmt):
        return ast.AugAssign(target=ast.Name("aug_zz", ast.Store()), op=ast.Add(), value=_value_of(n))
    if name == "unpack-assign" and isinstance(n, ast.stmt):
        return ast.Assign(targets=[ast.Tuple([ast.Name("u1_zz", ast.Store()), ast.Starred(ast.Name("u2_zz", ast.Store()), ast.Store())], ast.Store())],
                          value=_value_of(n))
    if name == "del-target" and isinstance(n, ast.stmt):
        return ast.If(test=ast.Constant(True), body=[c(n), ast.Delete(targets=[ast.Name("del_zz", ast.Del())])], orelse=[])
    if name == "global-stmt" and isinstance(n, ast.stmt):
        return ast.If(test=ast.Constant(True), body=[ast.Assign(targets=[ast.Name("g_zz", ast.Store())], value=_value_of(n))], orelse=[c(n)])
    if name == "async-for" and isinstance(n, ast.stmt):
        return ast.For(target=ast.Name("i_zz", ast.Store()), iter=_value_of(n), body=[c(n)], orelse=[ast.Pass()])
    if name == "with-item" and isinstance(n, ast.stmt):
        return ast.With(items=[ast.withitem(context_expr=_value_of(n), optional_vars=ast.Name("w_zz", ast.Store()))], body=[c(n)])
    if name == "match-stmt" and isinstance(n, ast.stmt):
        return ast.Match(subject=_value_of(n), cases=[
            ast.match_case(pattern=ast.MatchSequence(patterns=[ast.MatchStar(name="rest_zz"), ast.MatchAs(name="last_zz")]), guard=None, body=[c(n)]),
            ast.match_case(pattern=ast.MatchMapping(keys=[ast.Constant("k")], patterns=[ast.MatchAs(name="v_zz")], rest="rest2_zz"), guard=None, body=[ast.Pass()]),
            ast.match_case(pattern=ast.MatchClass(cls=ast.Name("int", ast.Load()), patterns=[], kwd_attrs=["real"], kwd_patterns=[ast.MatchAs(name="r_zz")]), guard=None, body=[ast.Pass()]),
            ast.match_case(pattern=ast.MatchAs(), guard=None, body=[ast.Pass()])])
    if name == "raise-from" and isinstance(n, ast.stmt):
        return ast.Try(body=[c(n)], handlers=[ast.ExceptHandler(type=ast.Tuple([ast.Name("ValueError", ast.Load()), _value_of(n)], ast.Load()), name="e_zz",
                       body=[ast.Raise(exc=ast.Call(ast.Name("KeyError", ast.Load()), [], []), cause=ast.Name("e_zz", ast.Load()))])], orelse=[], finalbody=[])
    if name == "compare-chain":
        return ast.Compare(left=c(n), ops=[ast.Lt(), ast.In()], comparators=[ast.Constant(1), ast.Tuple([ast.Constant(1)], ast.Load())])
    if name == "listcomp":
        return ast.ListComp(elt=ast.Name("e_zz", ast.Load()), generators=[ast.comprehension(
            target=ast.Name("e_zz", ast.Store()), iter=c(n), ifs=[ast.Name("e_zz", ast.Load())], is_async=0)])
    if name == "lambda":
        return ast.Lambda(args=ast.arguments(posonlyargs=[], args=[ast.arg("a_zz")], kwonlyargs=[], kw_defaults=[], defaults=[]), body=c(n))
    if name == "yield":
        return ast.Yield(value=c(n))
    if name == "ann-assign":
        return ast.AnnAssign(target=c(n.targets[0]), annotation=ast.Subscript(
            value=ast.Name("list", ast.Load()), slice=ast.Constant("int"), ctx=ast.Load()), value=c(n.value), simple=1)
    return None


def _value_of(stmt):
    """An expression taken from a statement (its value, or a constant)."""
    v = getattr(stmt, "value", None)
    return copy.deepcopy(v) if isinstance(v, ast.expr) else ast.Constant(0)


def replace(tree, old, new):
    for parent in ast.walk(tree):
        for field, value in ast.iter_fields(parent):
            if value is old:
                setattr(parent, field, new)
                return True
            if isinstance(value, list):
                for i, item in enumerate(value):
                    if item is old:
                        if isinstance(old, ast.stmt) and not isinstance(new, ast.stmt):
                            new = ast.Expr(value=new)
                        if isinstance(old, ast.expr) and isinstance(new, ast.stmt):
                            return False
                        value[i] = new
                        return True
    return False


def program_strategy(max_mutations=3):
    """(origin, source, mutations) - a corpus snippet with 0..max_mutations mutations."""
    snips = snippets()

    @st.composite
    def s(draw):
        i = draw(st.integers(0, len(snips) - 1))
        origin, src = snips[i]
        k = draw(st.integers(0, max_mutations))
        muts = [(draw(st.floats(0, 1)), draw(st.sampled_from(MUTATIONS))) for _ in range(k)]
        if muts:
            out = mutate(src, muts)
            if out is not None:
                return origin, out, [m for _, m in muts]
        return origin, src, []

    return s()

"""Shared runner: sharding, budgets, evidence, replay, known findings.

A property module (pv/props/cNN.py) exposes

    ID, RULE, ASSUMPTIONS (list[str]), TECHNIQUE (str)
    shards(tier, seed) -> list[dict]        picklable shard specs
    run_shard(spec) -> dict                 Collector.result()
    replay(case) -> Optional[dict]          failure dict {key, what, case} or None

The runner merges shard results, matches failures against known_findings.json,
writes evidence/<ID>.json and replays/<ID>/<sha>.json, prints the VIOLATION /
KNOWN-FINDING lines and returns the exit status (0 ok, 1 violation, 2 harness).
"""

from __future__ import annotations

import fnmatch
import hashlib
import importlib
import json
import multiprocessing as mp
import os
import sys
import time
import traceback
from collections import Counter
from pathlib import Path

ROOT = Path(__file__).resolve().parent.parent
KNOWN_FILE = ROOT / "known_findings.json"

WATCHDOG_S = {"quick": 540, "thorough": 3300}


class Found(Exception):
    """Raised inside a Hypothesis test body for a new failure key."""

    def __init__(self, failure):
        super().__init__(failure["key"] + ": " + failure["what"])
        self.failure = failure


def h64(obj) -> int:
    if not isinstance(obj, (bytes, str)):
        obj = json.dumps(obj, sort_keys=True, default=repr)
    if isinstance(obj, str):
        obj = obj.encode("utf-8", "surrogatepass")
    return int.from_bytes(hashlib.blake2b(obj, digest_size=8).digest(), "big")


def mix_seed(*parts) -> int:
    return h64("/".join(str(p) for p in parts)) % (2**31)


def key_matches(key: str, patterns) -> bool:
    """Patterns are exact keys, fnmatch patterns, or `superset:<kind>|a,b,c` which matches a key
    `<kind>|<comma separated token set>` whose token set contains {a,b,c} (`<kind>` may list several
    kinds joined by `+`: effects of one root cause); a pattern token may
    itself hold fnmatch wildcards (`D:loop.body*`) and is then satisfied by any matching key token."""
    for p in patterns:
        if p.startswith("superset:"):
            pk, _, ptoks = p[len("superset:"):].partition("|")
            kk, _, ktoks = key.partition("|")
            have = set(ktoks.split(","))
            if kk in pk.split("+") and all(t in have or (any(c in t for c in "*?[") and any(fnmatch.fnmatchcase(h, t) for h in have))
                                for t in ptoks.split(",") if t):
                return True
        elif key == p or fnmatch.fnmatchcase(key, p):
            return True
    return False


class Collector:
    """Per-shard accumulator."""

    MAX_SAMPLES = 6

    def __init__(self, spec):
        self.spec = spec
        self.known = list(spec.get("known_keys", ()))
        self.deadline = spec.get("deadline")
        self.evaluations = 0
        self.nontrivial = set()
        self.classes = Counter()
        self.samples = []
        self.failures = []
        self.seen_keys = set()
        self.excluded_known = 0
        self.skipped = 0
        self.discarded = 0
        self.extra = {}
        self.budget_hit = False
        self.unreproduced = 0
        self.last_failure = None

    # -- accounting
    def case(self, nontrivial_id=None, label=None, sample=None, n=1):
        self.evaluations += n
        if nontrivial_id is not None:
            self.nontrivial.add(h64(nontrivial_id))
        if label is not None:
            if isinstance(label, (list, tuple, set, frozenset)):
                for l in label:
                    self.classes[l] += 1
            else:
                self.classes[label] += 1
        if sample is not None:
            self.sample(sample)

    def sample(self, sample):
        # first few, then a deterministic sparse selection keyed on the count
        n = self.evaluations
        if len(self.samples) < self.MAX_SAMPLES:
            self.samples.append(sample)
        elif n & (n - 1) == 0 and len(self.samples) < 3 * self.MAX_SAMPLES:
            self.samples.append(sample)

    def out_of_time(self) -> bool:
        if self.deadline is not None and time.time() > self.deadline:
            self.budget_hit = True
            return True
        return False

    # -- failures
    def is_known(self, key) -> bool:
        return key_matches(key, self.known)

    def fail(self, key, what, case, raise_new=False):
        """Record a failure.  Returns True if it is new (not known, not seen)."""
        if self.is_known(key):
            self.excluded_known += 1
            return False
        failure = {"key": key, "what": what, "case": case}
        self.last_failure = failure
        if key in self.seen_keys:
            return False
        if raise_new:
            raise Found(failure)
        self.seen_keys.add(key)
        self.failures.append(failure)
        return True

    def confirm(self, failure):
        """Record a failure that was found via Found/shrinking."""
        if failure["key"] not in self.seen_keys:
            self.seen_keys.add(failure["key"])
            self.failures.append(failure)

    def result(self):
        return {
            "evaluations": self.evaluations,
            "nontrivial": sorted(self.nontrivial),
            "classes": dict(self.classes),
            "samples": self.samples,
            "failures": self.failures,
            "excluded_known": self.excluded_known,
            "skipped": self.skipped,
            "discarded": self.discarded,
            "extra": self.extra,
            "budget_hit": self.budget_hit,
            "unreproduced": self.unreproduced,
        }


def hyp_settings(max_examples, shrink=True, stateful_step_count=None):
    from hypothesis import HealthCheck, Phase, settings

    phases = [Phase.generate]
    if shrink:
        phases.append(Phase.shrink)
    kw = {}
    if stateful_step_count is not None:
        kw["stateful_step_count"] = stateful_step_count
    return settings(
        max_examples=max_examples,
        deadline=None,
        database=None,
        derandomize=False,
        report_multiple_bugs=False,
        phases=phases,
        suppress_health_check=[HealthCheck.too_slow, HealthCheck.data_too_large],
        print_blob=False,
        **kw,
    )


def drive(col: Collector, make_test, seed, max_examples, shrink=True, max_failures=4,
          replay=None):
    """Run a Hypothesis test built by make_test() repeatedly, collecting distinct
    failure keys.  The test body must call col.fail(..., raise_new=True)."""
    import hypothesis
    from hypothesis import errors as herr

    # the shrinker may spend minutes on one failure (hard cap 5 min): the quick tier reports the
    # failing case as found, the thorough tier shrinks it
    if col.spec.get("tier", "quick") == "quick":
        shrink = False
    for attempt in range(max_failures + 1):
        test = make_test()
        test = hyp_settings(max_examples, shrink=shrink)(test)
        test = hypothesis.seed(mix_seed(seed, attempt))(test)
        col.last_failure = None
        try:
            test()
            return
        except Found as f:
            failure = f.failure
        except herr.Unsatisfiable:
            raise
        except tuple(getattr(herr, n) for n in ("Flaky", "FlakyFailure") if hasattr(herr, n)):
            failure = col.last_failure
            if failure is None:
                raise
            failure = dict(failure, flaky=True)
        if replay is not None:
            again = replay(failure["case"])
            if again is None:
                col.unreproduced += 1
                col.seen_keys.add(failure["key"])
                continue
        col.confirm(failure)
        if attempt == max_failures or col.out_of_time():
            return


def _run_shard_entry(args):
    modname, spec = args
    try:
        if not os.environ.get("PV_DEBUG"):
            sys.stderr = open(os.devnull, "w")
            sys.stdout = open(os.devnull, "w")  # generated / corpus modules may print at import
        mod = importlib.import_module(modname)
        res = mod.run_shard(spec)
        res["shard"] = spec.get("name", "?")
        return res
    except BaseException:
        return {"harness_error": traceback.format_exc(), "shard": spec.get("name", "?")}


def load_known(prop_id):
    if not KNOWN_FILE.exists():
        return []
    data = json.loads(KNOWN_FILE.read_text())
    return [f for f in data if f.get("property") == prop_id]


def git_head(path):
    try:
        import subprocess

        return subprocess.run(
            ["git", "-C", str(path), "rev-parse", "HEAD"], capture_output=True, text=True
        ).stdout.strip()
    except Exception:
        return ""


def out_root():
    """Where evidence and replay files go: /verif, unless PV_OUT redirects them (sensitivity
    self-tests against a scratch copy of the repository must not overwrite the real evidence)."""
    return Path(os.environ["PV_OUT"]) if os.environ.get("PV_OUT") else ROOT


def write_replay(prop_id, failure, seed, tier):
    d = out_root() / "replays" / prop_id
    d.mkdir(parents=True, exist_ok=True)
    body = {
        "property": prop_id,
        "key": failure["key"],
        "what": failure["what"],
        "case": failure["case"],
        "seed": seed,
        "tier": tier,
        "repo_head": git_head(os.environ.get("PV_REPO", "/repo")),
    }
    sha = hashlib.sha1(json.dumps([failure["key"], failure["case"]], sort_keys=True, default=repr).encode()).hexdigest()[:12]
    p = d / f"{sha}.json"
    p.write_text(json.dumps(body, indent=1, sort_keys=True, default=repr))
    return p.relative_to(ROOT) if p.is_relative_to(ROOT) else p


def run_property(prop_id: str, tier: str, seed: int, replay_path=None, nproc=None) -> int:
    t0 = time.time()
    modname = f"pv.props.{prop_id.lower()}"
    try:
        mod = importlib.import_module(modname)
    except Exception:
        traceback.print_exc()
        print(f"HARNESS-ERROR property={prop_id} cannot import {modname}")
        return 2

    if replay_path is not None:
        body = json.loads(Path(replay_path).read_text())
        case = body["case"] if "case" in body else body
        try:
            failure = mod.replay(case)
        except Exception:
            traceback.print_exc()
            return 2
        if failure is None:
            print(f"replay: property {prop_id} holds on this case")
            return 0
        print(f"replay: {failure['key']}: {failure['what']}")
        print(f"VIOLATION property={prop_id} replay={replay_path}")
        return 1

    known = load_known(prop_id)
    lines = []
    failures = []  # new ones
    harness_errors = []

    # 1. known findings / fixed regressions / corpus
    known_keys = []
    open_count = 0
    with _quiet():
        for kf in known:
            status = kf.get("status", "open")
            try:
                if kf.get("example") is None:
                    allres = []
                elif hasattr(mod, "replay_all"):
                    allres = list(mod.replay_all(kf["example"]))
                else:
                    r1 = mod.replay(kf["example"])
                    allres = [r1] if r1 is not None else []
            except Exception:
                harness_errors.append(traceback.format_exc())
                continue
            if status == "open":
                if any(key_matches(r["key"], [kf["key"]]) for r in allres):
                    lines.append(f"KNOWN-FINDING: property={prop_id} {kf['what']} [key={kf['key']}]")
                    known_keys.append(kf["key"])
                    open_count += 1
                else:
                    lines.append(f"NOTE: property={prop_id} listed finding no longer reproduces: {kf['key']}")
                failures.extend(allres)  # other keys are filtered against known_keys below
            elif status == "fixed":
                failures.extend(allres)
        corpus_dir = ROOT / "corpus" / prop_id
        corpus_n = 0
        if corpus_dir.is_dir():
            for p in sorted(corpus_dir.glob("*.json")):
                body = json.loads(p.read_text())
                case = body["case"] if "case" in body else body
                try:
                    res = mod.replay(case)
                except Exception:
                    harness_errors.append(f"corpus {p.name}: " + traceback.format_exc())
                    continue
                corpus_n += 1
                if res is not None and not key_matches(res["key"], known_keys):
                    failures.append(res)

    # 2. generated search
    specs = mod.shards(tier, seed)
    deadline = t0 + WATCHDOG_S[tier]
    for i, s in enumerate(specs):
        s.setdefault("name", f"s{i}")
        s["known_keys"] = known_keys
        s["deadline"] = deadline
        s["tier"] = tier
        s["seed"] = seed
    nproc = nproc or int(os.environ.get("PV_NPROC", "0")) or min(16, os.cpu_count() or 1)
    results = []
    inconclusive = False
    if os.environ.get("PV_INPROC"):
        for s in specs:
            results.append(_run_shard_entry((modname, s)))
    else:
        ctx = mp.get_context("spawn")
        pool = ctx.Pool(min(nproc, max(1, len(specs))), maxtasksperchild=1)
        try:
            it = pool.imap_unordered(_run_shard_entry, [(modname, s) for s in specs])
            for _ in range(len(specs)):
                remaining = deadline + 45 - time.time()
                try:
                    results.append(it.next(timeout=max(1.0, remaining)))
                except mp.TimeoutError:
                    inconclusive = True
                    break
        finally:
            pool.terminate()
            pool.join()

    total = Collector({})
    nontrivial = set()
    exhaustive = None
    extra = {}
    for r in results:
        if "harness_error" in r:
            harness_errors.append(f"shard {r['shard']}: {r['harness_error']}")
            continue
        total.evaluations += r["evaluations"]
        nontrivial.update(r["nontrivial"])
        total.classes.update(r["classes"])
        total.excluded_known += r["excluded_known"]
        total.skipped += r["skipped"]
        total.discarded += r["discarded"]
        total.unreproduced += r.get("unreproduced", 0)
        if r.get("budget_hit"):
            inconclusive = True
        for s in r["samples"]:
            if len(total.samples) < 12:
                total.samples.append(s)
        for k, v in r.get("extra", {}).items():
            if isinstance(v, (int, float)) and not isinstance(v, bool):
                extra[k] = extra.get(k, 0) + v
            elif isinstance(v, bool):
                extra[k] = extra.get(k, True) and v
            elif isinstance(v, list):
                extra.setdefault(k, [])
                for item in v:
                    if item not in extra[k] and len(extra[k]) < 40:
                        extra[k].append(item)
            elif isinstance(v, dict):
                d = extra.setdefault(k, {})
                for kk, vv in v.items():
                    if isinstance(vv, (int, float)):
                        d[kk] = d.get(kk, 0) + vv
                    else:
                        d[kk] = vv
            else:
                extra[k] = v
        failures.extend(r["failures"])

    # 3. report
    seen = set()
    new_failures = []
    for f in failures:
        if key_matches(f["key"], known_keys) or f["key"] in seen:
            continue
        seen.add(f["key"])
        new_failures.append(f)

    status = 0
    for f in new_failures:
        p = write_replay(prop_id, f, seed, tier)
        lines.append(f"  {f['key']}: {f['what']}")
        lines.append(f"VIOLATION property={prop_id} replay={p}")
        status = 1

    gen = total.evaluations + total.skipped + total.discarded
    ratio_bad = gen > 0 and (total.skipped + total.discarded) / gen > getattr(mod, "MAX_ABSTAIN", 0.2)
    coverage = {
        "evaluations": total.evaluations,
        "distinct_nontrivial": len(nontrivial),
        "rule": mod.RULE,
        "samples": total.samples[:12],
        "classes": dict(sorted(total.classes.items(), key=lambda kv: -kv[1])[:60]),
        "excluded_known": total.excluded_known,
        "skipped_unmodelled": total.skipped,
        "discarded": total.discarded,
        "unreproduced": total.unreproduced,
        "shards": len(specs),
        "shards_completed": len([r for r in results if "harness_error" not in r]),
        "inconclusive_budget": inconclusive,
        "corpus_replayed": corpus_n,
        "known_findings_open": open_count,
        "violation_keys": [f["key"] for f in new_failures],
    }
    coverage.update(extra)
    evidence = {
        "property_id": prop_id,
        "tier": tier,
        "seed": seed,
        "level": getattr(mod, "LEVEL", "exploration"),
        "coverage": coverage,
        "assumptions": list(getattr(mod, "ASSUMPTIONS", [])),
        "wall_s": round(time.time() - t0, 2),
        "violations": len(new_failures),
        "technique": getattr(mod, "TECHNIQUE", ""),
        "repo_head": git_head(os.environ.get("PV_REPO", "/repo")),
    }
    (out_root() / "evidence").mkdir(parents=True, exist_ok=True)
    (out_root() / "evidence" / f"{prop_id}.json").write_text(
        json.dumps(evidence, indent=1, sort_keys=True, default=repr) + "\n"
    )

    for l in lines:
        print(l)
    print(
        f"{prop_id} tier={tier} seed={seed}: evaluations={total.evaluations} "
        f"nontrivial={len(nontrivial)} excluded_known={total.excluded_known} "
        f"skipped={total.skipped} discarded={total.discarded} "
        f"violations={len(new_failures)} wall={evidence['wall_s']}s"
        + (" INCONCLUSIVE(budget)" if inconclusive else "")
    )
    if harness_errors:
        for e in harness_errors[:5]:
            print("HARNESS-ERROR:", e, file=sys.stderr)
        print(f"HARNESS-ERROR property={prop_id} ({len(harness_errors)} errors)")
        return 2 if status == 0 else status
    if ratio_bad and status == 0:
        print(f"HARNESS-ERROR property={prop_id} oracle abstained/discarded on more than "
              f"{int(getattr(mod, 'MAX_ABSTAIN', 0.2) * 100)}% of cases")
        return 2
    if total.evaluations == 0 and status == 0:
        print(f"HARNESS-ERROR property={prop_id} nothing evaluated")
        return 2
    return status


class _quiet:
    def __enter__(self):
        if os.environ.get("PV_DEBUG"):
            return self
        self._old = sys.stderr
        sys.stderr = open(os.devnull, "w")
        return self

    def __exit__(self, *a):
        if os.environ.get("PV_DEBUG"):
            return False
        sys.stderr.close()
        sys.stderr = self._old
        return False

"""Run the quick check of its own property against every seeded change (scratch copies of /repo).

    python -m pv.seedbatch [--only C09,C12] [--rounds abc] [--out seeded/batch_result.json]

Prints one line per seed; exit status 1 if some seed is not caught.  Not a registered check.
"""

import json
import os
import shutil
import subprocess
import sys
import tempfile
import time
from pathlib import Path

ROOT = Path(__file__).resolve().parent.parent


def main():
    only = None
    out = ROOT / "seeded" / "batch_result.json"
    args = sys.argv[1:]
    rounds = None
    for i, a in enumerate(args):
        if a == "--rounds":
            rounds = set(args[i + 1])
        if a == "--only":
            only = set(args[i + 1].split(","))
        if a == "--out":
            out = Path(args[i + 1])
    results = {}
    for d in sorted((ROOT / "seeded").iterdir()):
        if not (d / "patch.diff").exists():
            continue
        prop = d.name.split("-")[0]
        if only and prop not in only and d.name not in only:
            continue
        if rounds and d.name.split("-")[-1] not in rounds:
            continue
        scratch = tempfile.mkdtemp(prefix="pv_batch_")
        t0 = time.time()
        try:
            dst = os.path.join(scratch, "repo")
            shutil.copytree("/repo", dst, ignore=shutil.ignore_patterns(".git", "__pycache__", "*.pyc", ".pytest_cache"))
            r = subprocess.run(["patch", "-p1", "-d", dst, "-i", str(d / "patch.diff")], capture_output=True, text=True)
            if r.returncode != 0:
                results[d.name] = {"patch": "failed", "detail": (r.stdout + r.stderr)[-300:]}
                print(f"{d.name}: PATCH FAILED", flush=True)
                continue
            env = dict(os.environ, PV_REPO=dst, VERIF_SEED="1", PV_OUT=os.path.join(scratch, "out"))
            env.pop("PYTHONPATH", None)
            p = subprocess.run([str(ROOT / "check"), prop, "--tier", "quick"], cwd=str(ROOT), env=env, capture_output=True, text=True)
            viol = [l for l in p.stdout.splitlines() if l.startswith("VIOLATION")]
            results[d.name] = {"check": prop, "exit": p.returncode, "violations": len(viol), "wall_s": round(time.time() - t0, 1)}
            print(f"{d.name}: exit={p.returncode} violations={len(viol)} wall={time.time() - t0:.0f}s", flush=True)
        finally:
            shutil.rmtree(scratch, ignore_errors=True)
        out.write_text(json.dumps(results, indent=1) + "\n")
    missed = [k for k, v in results.items() if v.get("exit") != 1]
    print("NOT CAUGHT:", missed)
    return 1 if missed else 0


if __name__ == "__main__":
    sys.exit(main())

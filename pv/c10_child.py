"""Child process for C10: check a batch of programs and write their normalised renders.

    python -m pv.c10_child <batch.json> <out.json>       (PYTHONHASHSEED set by the parent)
"""

import json
import os
import re
import sys


def normalise(text):
    text = re.sub(r"<test input [0-9a-f]+>", "<M>", text)
    text = re.sub(r"\b[0-9a-f]{64}\.py", "M.py", text)
    text = re.sub(r"0x[0-9a-f]{6,}", "0xADDR", text)
    return text


def render(diags):
    return sorted([d.code or "", d.lineno or 0, d.col or 0, normalise(d.message)] for d in diags)


def main():
    batch = json.load(open(sys.argv[1]))
    sys.stdout = open(os.devnull, "w")  # checked modules may print at import
    sys.stderr = open(os.devnull, "w")
    # perturb the heap so that id()-ordered containers differ between children too
    ballast = [object() for _ in range(1000 * (1 + int(os.environ.get("PYTHONHASHSEED", "0") or 0) % 7))]
    from pv import sut

    out = []
    shared = None
    for item in batch["programs"]:
        try:
            if batch.get("fresh_checker", True):
                res = sut.check_source(item["src"])
            else:
                shared = shared or sut.new_checker()
                res = sut.check_source(item["src"], checker=shared)
            if res.raised is not None:
                out.append({"error": f"raised {type(res.raised).__name__}"})
            else:
                out.append({"render": render(res.diags)})
        except BaseException as e:
            out.append({"error": f"import {type(e).__name__}"})
    del ballast
    with open(sys.argv[2], "w") as f:
        json.dump(out, f)


if __name__ == "__main__":
    main()

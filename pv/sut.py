"""System under test: import pyanalyze from PV_REPO and run it on source text."""

from __future__ import annotations

import ast
import contextlib
import io
import linecache
import os
import subprocess
import sys
from dataclasses import dataclass, field
from typing import Any, Optional

ROOT = os.path.dirname(os.path.dirname(os.path.abspath(__file__)))
REPO = os.environ.get("PV_REPO", "/repo")
if REPO not in sys.path:
    sys.path.insert(0, REPO)
if ROOT not in sys.path:
    sys.path.insert(0, ROOT)

import pyanalyze  # noqa: E402
from pyanalyze import analysis_lib  # noqa: E402
from pyanalyze.checker import Checker  # noqa: E402
from pyanalyze.error_code import ErrorCode  # noqa: E402
from pyanalyze.name_check_visitor import ClassAttributeChecker, NameCheckVisitor  # noqa: E402
from pyanalyze.value import Value  # noqa: E402

from pyanalyze.extensions import patch_typing_overload  # noqa: E402

# generated modules are exec'd before the visitor is constructed: make sure `typing.overload`
# already is pyanalyze's recording decorator (the CLI does this in prepare_constructor_kwargs)
patch_typing_overload()

assert os.path.realpath(pyanalyze.__file__).startswith(os.path.realpath(REPO)), (
    pyanalyze.__file__,
    REPO,
)


class _Null(io.TextIOBase):
    def write(self, s):
        return len(s)


@contextlib.contextmanager
def quiet():
    if os.environ.get("PV_DEBUG"):
        yield
        return
    old = sys.stderr
    sys.stderr = _Null()
    try:
        yield
    finally:
        sys.stderr = old


class AccVisitor(NameCheckVisitor):
    """Collects every Value inferred per expression node in the checking phase."""

    pv_values: dict
    pv_visited: set

    def visit(self, node):
        ret = super().visit(node)
        if self._is_checking():
            acc = self.__dict__.setdefault("pv_values", {})
            acc.setdefault(id(node), []).append(ret)
            self.__dict__.setdefault("pv_visited", set()).add(type(node).__name__)
        return ret

    def show_error(self, node, e=None, error_code=None, **kw):
        # every attempt, before the duplicate filter / ignore handling
        self.__dict__.setdefault("pv_attempts", []).append(
            (getattr(node, "lineno", None), getattr(error_code, "name", None), str(e)))
        return super().show_error(node, e, error_code, **kw)

    def composite_from_node(self, node):
        comp = super().composite_from_node(node)
        if self._is_checking() and isinstance(node, (ast.Name, ast.Attribute, ast.Subscript)):
            acc = self.__dict__.setdefault("pv_values", {})
            acc.setdefault(id(node), []).append(comp.value)
        return comp


@dataclass
class Diag:
    code: str
    lineno: Optional[int]
    col: Optional[int]
    description: str
    message: str

    def render(self):
        return (self.code, self.lineno, self.col, self.description)


@dataclass
class CheckResult:
    diags: list
    tree: Optional[ast.Module] = None
    values: dict = field(default_factory=dict)  # id(node) -> [Value]
    new_code: Optional[str] = None
    raised: Optional[BaseException] = None
    visited: set = field(default_factory=set)
    raw: list = field(default_factory=list)
    module: Any = None
    attempts: list = field(default_factory=list)

    def values_of(self, node):
        return self.values.get(id(node), [])

    def by_line(self):
        out = {}
        for d in self.diags:
            out.setdefault(d.lineno, []).append(d)
        return out


def _to_diag(f) -> Diag:
    code = f.get("code")
    return Diag(
        code=code.name if code is not None else None,
        lineno=f.get("lineno"),
        col=f.get("col_offset"),
        description=f.get("description", ""),
        message=f.get("message", ""),
    )


def settings_from(names_enabled: dict) -> dict:
    return {getattr(ErrorCode, name): v for name, v in names_enabled.items()}


def all_codes_settings(value=True, except_=()):
    return {code: (value if code.name not in except_ else not value) for code in ErrorCode}


def new_checker(settings=None, config_file=None, **kw):
    kwargs = dict(kw)
    if settings is not None:
        kwargs["settings"] = settings
    if config_file is not None:
        kwargs["config_file"] = config_file
    kwargs = NameCheckVisitor.prepare_constructor_kwargs(kwargs)
    return kwargs["checker"]


def forget_module(mod):
    if mod is None:
        return
    sys.modules.pop(getattr(mod, "__name__", None), None)
    fn = getattr(mod, "__file__", None)
    if fn:
        linecache.cache.pop(fn, None)
    try:
        from pyanalyze.extensions import _overload_registry  # type: ignore

        # keyed by fully qualified names containing the unique module name; drop ours
        for k in [k for k in list(_overload_registry) if getattr(mod, "__name__", "\0") in k]:
            _overload_registry.pop(k, None)
    except Exception:
        pass


def check_source(
    src: str,
    *,
    settings=None,
    checker: Optional[Checker] = None,
    collect_values: bool = False,
    apply_changes: bool = False,
    add_ignores: bool = False,
    check_attributes: bool = True,
    config_file=None,
    keep_module: bool = False,
    visitor_cls=None,
    module=None,
) -> CheckResult:
    """Check `src` the way the repository's test base does, with the default
    configuration (no test.toml).  Import failures raise (the generator is
    wrong then), checker exceptions are returned in .raised."""
    tree = ast.parse(src)
    mod = module if module is not None else analysis_lib.make_module(src)
    try:
        kwargs: dict = {}
        if settings is not None:
            kwargs["settings"] = settings
        if config_file is not None:
            kwargs["config_file"] = config_file
        if checker is not None:
            kwargs["checker"] = checker
        if add_ignores:
            kwargs["add_ignores"] = True
        cls = visitor_cls or (AccVisitor if collect_values else NameCheckVisitor)
        res = CheckResult(diags=[], tree=tree)
        with quiet():
            if checker is not None:
                from pyanalyze.extensions import patch_typing_overload

                patch_typing_overload()
                kwargs = {k: v for k, v in kwargs.items() if k in ("checker", "add_ignores")}
            else:
                kwargs = cls.prepare_constructor_kwargs(kwargs)
            try:
                with ClassAttributeChecker(
                    enabled=check_attributes, options=kwargs["checker"].options
                ) as attribute_checker:
                    visitor = cls(
                        mod.__name__,
                        src,
                        tree,
                        module=mod,
                        attribute_checker=attribute_checker,
                        **kwargs,
                    )
                    out = visitor.check_for_test(apply_changes=apply_changes)
                    if apply_changes:
                        out, res.new_code = out
                    out = list(out)
                    out += visitor.perform_final_checks(kwargs)
                res.raw = out
                res.diags = [_to_diag(f) for f in out]
                if collect_values:
                    res.values = visitor.__dict__.get("pv_values", {})
                    res.visited = visitor.__dict__.get("pv_visited", set())
                    res.attempts = visitor.__dict__.get("pv_attempts", [])
            except Exception as e:  # totality is C12's subject; others treat as harness info
                res.raised = e
        if keep_module:
            res.module = mod
        return res
    finally:
        if not keep_module and module is None:
            forget_module(mod)


def make_named_module(src, name):
    """Like analysis_lib.make_module but with a chosen module name (for per-module overrides)."""
    import types

    filename = f"{name}.py"
    mod = types.ModuleType(name)
    scope = mod.__dict__
    scope["__name__"] = name
    scope["__file__"] = filename
    scope["__loader__"] = analysis_lib._FakeLoader(src)
    linecache.lazycache(filename, scope)
    sys.modules[name] = mod  # before exec: dataclasses look the module up while the class is built
    try:
        exec(compile(src, filename, "exec"), scope)
    except BaseException:
        sys.modules.pop(name, None)
        raise
    return mod


def union_of(values):
    from pyanalyze.value import unite_values

    return unite_values(*values)


def run_cli(args, cwd, env_extra=None, timeout=300):
    env = dict(os.environ)
    env["PYTHONPATH"] = os.pathsep.join([REPO, ROOT, env.get("PYTHONPATH", "")])
    if env_extra:
        env.update(env_extra)
    p = subprocess.run(
        [sys.executable, "-m", "pyanalyze", *args],
        cwd=cwd,
        env=env,
        capture_output=True,
        text=True,
        timeout=timeout,
    )
    return p.returncode, p.stdout, p.stderr

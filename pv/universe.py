"""Object universe and type-expression grammar shared by the membership-based checks.

Every object and every type is defined by a *source expression* evaluated in NS
(typing names + pv_vocab), so that the same case can be used at API level
(the object) and at program level (the text).
"""

from __future__ import annotations

import collections.abc
import itertools
import typing

import typing_extensions

import pv_vocab

NS: dict = {}
exec("from typing import *\nfrom typing_extensions import *\nfrom typing import Callable\nimport os, math, collections.abc, typing, typing_extensions\n", NS)
NS.update({k: getattr(pv_vocab, k) for k in pv_vocab.__all__})
NS.update({"A_INST": pv_vocab.A(), "B_INST": pv_vocab.B(), "C_INST": pv_vocab.C()})
NS.update({k: getattr(pv_vocab, k) for k in pv_vocab.__all__})

# (source, is_literal_for_pyanalyze)
_SCALARS = [
    "None", "True", "False", "0", "1", "-1", "2", "255", "256", "2**70", "0.0", "1.5", "-0.0",
    "1j", '""', '"a"', '"ab"', '"{x}"', 'b""', 'b"a"', 'b"ab"',
]
_ENUMS = ["E.a", "E.b", "E.c", "IE.p", "IE.q", "Perm.R", "Perm.W", "Perm.R | Perm.W"]
_CONTAINERS = [
    "()", "(1,)", "(1, 2)", '(1, "a")', '("a", 1)', "(1, 2, 3)", '(1, "a", 1.5)', "(None,)", "(True, 0)",
    '(1, 2, "a")', '("a", "b")', "(1.5,)", "((1,), (2,))", '((1, "a"),)', "(b'a', 1)", "(E.a,)",
    "[]", "[1]", "[1, 2]", '[1, "a"]', '["a"]', "[None]", "[1.5]", "[True]", "[[1]]", "[[]]", '[(1, "a")]',
    "[(0, 0)]", "[E.a]", '[b"a"]', "[1, None]",
    "set()", "{1}", "{1, 2}", '{"a"}', '{1, "a"}', "{None}", "{(1,)}", "{1.5}", "{True}",
    "frozenset()", "frozenset({1})", 'frozenset({"a"})', 'frozenset({1, "a"})',
    "{}", '{"a": 1}', '{"a": 1, "b": "x"}', '{"a": 1, "b": 2}', '{"a": "x"}', '{"b": "x"}', "{1: 1}",
    '{1: "a"}', '{"a": 1, "b": "x", "c": 3}', '{"a": [1]}', '{"a": None}', '{"a": True, "b": ""}',
    '{"x": 1.5}', "{(1,): 1}", '{"a": {"a": 1}}',
    # siblings that are equal under == but differ in type (1 / 1.0 / True), bare and inside unhashable containers
    "[1, 1.0]", "[1, True]", "(1.0, 1)", "[[1], [1.0]]", "[[1.0], [1]]", "[[True], [1]]", "[[0], [False]]", "([1, 2], [1, 2.0])",
    '[{"a": True}, {"a": 1}]', "[{1}, {1.0}]", "{1: [1], 2: [1.0]}", "[[1], [1], [1.0]]", "[(True, 2), (1, 2)]", "[(1, 2), (True, 2)]", '{"a": (True,), "b": (1,)}',
]
_INSTANCES = ["A()", "B()", "C()", "D(1)", 'D(1, "y")', "G()", "WithX()", "Closer()",
              # instances of user generics derived from builtin containers
              # (instances of Rev / IntKeyed with content are left out: a literal of a dict subclass is read as
              # `Subclass[key type, value type]`, which is a recorded finding for classes whose own parameters
              # are permuted or partially applied)
              "Rev()", 'Fwd({1: "a"})', 'Fwd({"a": 1})', "LS([1])", 'LS(["a"])',
              # instances of subclasses of the promoted numeric types
              "FSub(2.5)", "ISub(7)", "MyNode()", "MyEdge()"]
_CLASSES = ["int", "bool", "str", "float", "A", "B", "C", "type", "object", "E", "list", "D"]
_FUNCS = ["len", "cond", "ident", "(lambda x: x)"]
_MODULES = ["os", "math"]


class Obj:
    __slots__ = ("src", "obj", "literal", "kind")

    def __init__(self, src, literal, kind):
        self.src = src
        self.obj = eval(src, NS)
        self.literal = literal
        self.kind = kind

    def __repr__(self):
        return f"Obj({self.src})"


UNIVERSE: list[Obj] = (
    [Obj(s, True, "scalar") for s in _SCALARS]
    + [Obj(s, True, "enum") for s in _ENUMS]
    + [Obj(s, True, "container") for s in _CONTAINERS]
    + [Obj(s, False, "instance") for s in _INSTANCES]
    + [Obj(s, True, "class") for s in _CLASSES]
    + [Obj(s, True, "func") for s in _FUNCS[:3]] + [Obj(_FUNCS[3], False, "func")]
    + [Obj(s, True, "module") for s in _MODULES]
)
BY_SRC = {o.src: o for o in UNIVERSE}

# ----------------------------------------------------------------- type grammar

LEAF_TYPES = [
    "int", "bool", "str", "bytes", "float", "complex", "None", "object", "A", "B", "C", "D", "E", "IE",
    "N", "TD", "TDp", "TDn", "HasX", "SupportsClose", "type",
    "Literal[1]", "Literal[True]", 'Literal["a"]', "Literal[0, 1]", "Literal[E.a]", 'Literal[b"a"]',
    "Literal[None]", 'Literal[1, "a"]', "Literal[E.a, E.b]", "tuple[()]",
    "Rev[int, str]", "Rev[str, int]", "Fwd[int, str]", "IntKeyed[str]", "LS[int]", "FSub", "ISub", "Perm", "Dyn.Inner", "NodeP", "EdgeP",
    # unions of ten or more members (pyanalyze switches to an indexed lookup there), with literals that are equal
    # across types in both orders
    "Literal[0, 1, 2, 3, 4, 5, 6, 7, 8, False, True]", 'Literal[False, True, 0, 1, 2, 3, 4, 5, 6, 7, 8, "a"]',
    'Union[Literal[1, True, "a", b"a", None, E.a], int, bytes, A, C, list[int], tuple[int, ...]]',
]
UNARY = [
    "Optional[{0}]", "list[{0}]", "List[{0}]", "set[{0}]", "frozenset[{0}]", "tuple[{0}, ...]",
    "Tuple[{0}, ...]", "tuple[{0}]", "Sequence[{0}]", "Iterable[{0}]", "Collection[{0}]",
    'Annotated[{0}, "meta"]', "{0} | None", "Set[{0}]", "FrozenSet[{0}]",
]
BINARY = [
    "Union[{0}, {1}]", "{0} | {1}", "dict[{0}, {1}]", "Dict[{0}, {1}]", "Mapping[{0}, {1}]",
    "tuple[{0}, {1}]", "Tuple[{0}, {1}]", "tuple[{0}, *tuple[{1}, ...]]", "tuple[*tuple[{0}, ...], {1}]",
    # the same variadic tuples spelt with Unpack (the star spelling is a recorded finding on every route)
    "tuple[{0}, Unpack[tuple[{1}, ...]]]", "tuple[Unpack[tuple[{0}, ...]], {1}]", "Tuple[{0}, Unpack[Tuple[{1}, ...]]]",
]
TERNARY = [
    "tuple[{0}, *tuple[{1}, ...], {2}]", "tuple[{0}, {1}, {2}]", "Union[{0}, {1}, {2}]",
    "tuple[{0}, Unpack[tuple[{1}, ...]], {2}]",
]
TYPE_OF = ["type[{0}]", "Type[{0}]"]
TYPE_OF_ARGS = ["int", "bool", "str", "A", "B", "C", "object", "E", "float"]


def eval_type(src):
    return eval(src, NS)


def _ok_in_bar(s):
    # `X | Y` at runtime needs real types; string-free here, but Literal[...] | None works in 3.12
    return True


def types_depth1():
    out = list(LEAF_TYPES)
    out += [t.format(a) for t in TYPE_OF for a in TYPE_OF_ARGS]
    return out


def types_depth2(leaves=None):
    leaves = leaves or types_depth1()
    for u in UNARY:
        for a in leaves:
            yield u.format(a)
    small = [l for l in leaves if l in (
        "int", "str", "bool", "float", "None", "A", "B", "bytes", "Literal[1]", 'Literal["a"]', "E",
        "object", "N", "TD", "tuple[()]", "type[int]", "Literal[E.a]")]
    for b in BINARY:
        for a in small:
            for c in small:
                yield b.format(a, c)
    tiny = ["int", "str", "None", "bool", "float"]
    for t in TERNARY:
        for a, b, c in itertools.product(tiny, repeat=3):
            yield t.format(a, b, c)


def valid_type_src(src):
    try:
        eval_type(src)
        return True
    except Exception:
        return False


def type_strategy(max_depth=3, star=True):
    from hypothesis import strategies as st

    leaves = st.sampled_from(types_depth1())
    binary = [b for b in BINARY if star or "*" not in b]
    ternary = [t for t in TERNARY if star or "*" not in t]

    def fmt(tpl, *args):
        out = tpl.format(*args)
        if " | " in tpl and not valid_type_src(out):
            # `None | None` and friends are runtime errors; spell the same type with Union
            out = "Union[" + ", ".join(args) + "]" if len(args) > 1 else f"Optional[{args[0]}]"
        return out

    def extend(children):
        return st.one_of(
            st.builds(lambda u, a: fmt(u, a), st.sampled_from(UNARY), children),
            st.builds(lambda b, a, c: fmt(b, a, c), st.sampled_from(binary), children, children),
            st.builds(lambda t, a, b, c: fmt(t, a, b, c), st.sampled_from(ternary), children, children, children),
        )

    s = leaves
    for _ in range(max_depth - 1):
        s = st.one_of(leaves, extend(s))
    return s.filter(valid_type_src)


# ----------------------------------------------------------------- structural witnesses


def object_strategy():
    """Universe objects plus nested containers built from them (by source)."""
    from hypothesis import strategies as st

    base = st.sampled_from([o.src for o in UNIVERSE if o.kind in ("scalar", "enum", "container", "instance", "class")])
    hashable = st.sampled_from([o.src for o in UNIVERSE if o.kind in ("scalar", "enum") or o.src in (
        "()", "(1,)", '(1, "a")', "frozenset()", "int", "A")])

    def extend(children):
        return st.one_of(
            st.lists(children, max_size=3).map(lambda xs: "[" + ", ".join(xs) + "]"),
            st.lists(children, max_size=3).map(lambda xs: "(" + ", ".join(xs) + ("," if len(xs) == 1 else "") + ")"),
            st.lists(hashable, min_size=1, max_size=3).map(lambda xs: "{" + ", ".join(xs) + "}"),
            st.lists(st.tuples(hashable, children), max_size=3).map(
                lambda kv: "{" + ", ".join(f"{k}: {v}" for k, v in kv) + "}"),
            st.lists(st.tuples(st.sampled_from(['"a"', '"b"', '"c"']), children), max_size=3, unique_by=lambda t: t[0]).map(
                lambda kv: "{" + ", ".join(f"{k}: {v}" for k, v in kv) + "}"),
        )

    return st.recursive(base, extend, max_leaves=6)

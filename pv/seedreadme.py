"""Regenerate seeded/README.md from seeded/*/meta.json."""

import json
from pathlib import Path

ROOT = Path(__file__).resolve().parent.parent


def main():
    rows = []
    for d in sorted((ROOT / "seeded").iterdir()):
        m = d / "meta.json"
        if not m.exists():
            continue
        meta = json.loads(m.read_text())
        c = meta.get("confirmed", {})
        checks = c.get("checks", {})
        # `caught_by` is authoritative (an exit status 1 that turned out to be a false alarm of the check on the
        # unchanged tree, or the effect of a different defect, is explained in `first_run_note`)
        caught = c.get("caught_by") if "caught_by" in c else [k for k, v in checks.items() if v.get("exit") == 1]
        missed = [k for k in checks if k not in caught]
        later = meta.get("after_strengthening", {})
        rows.append((d.name, meta.get("property"), (meta.get("summary") or "")[:160].replace("|", "/"),
                     (meta.get("needs") or "")[:160].replace("|", "/") if isinstance(meta.get("needs"), str) else str(meta.get("needs"))[:160],
                     c.get("demo_exit_unchanged"), c.get("demo_exit_with_change"), (c.get("repo_tests_with_change") or "")[:24],
                     ", ".join(caught) or "-", ", ".join(missed) or "-",
                     ("; ".join(f"{k}: {v}" for k, v in later.items()) or "-")
                     + (f" [first run: {c['first_run_note']}]" if c.get("first_run_note") else "")))
    out = ["# Independently seeded changes", "",
           "Each directory holds `patch.diff` (the change, never committed to /repo), `demo.py` (the sub-agent's demonstration:",
           "exit 1 with the change, 0 without), `agent_meta.json` (the sub-agent's own notes) and `meta.json` (what was confirmed",
           "here with `python -m pv.seedcheck`: demo exit codes on scratch copies, the repository test-suite with the change, and",
           "the quick checks run against the patched copy).  The sub-agents saw only the property text and a scratch worktree.",
           "",
           "| seed | property | change | needs | demo unchanged / changed | repo tests with change | caught by (first run) | missed by (first run) | after strengthening |",
           "|---|---|---|---|---|---|---|---|---|"]
    for r in rows:
        out.append(f"| {r[0]} | {r[1]} | {r[2]} | {r[3]} | {r[4]} / {r[5]} | {r[6]} | {r[7]} | {r[8]} | {r[9]} |")
    (ROOT / "seeded" / "README.md").write_text("\n".join(out) + "\n")
    print("\n".join(out[-len(rows):]))


if __name__ == "__main__":
    main()

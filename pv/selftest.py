"""Sensitivity self-test: apply a patch to a scratch copy of /repo and run checks against it.

    python -m pv.selftest <patch.diff> C09 [C01 ...] [--tier quick] [--tests]

Exit status of each check is printed; the scratch copy is removed afterwards.
Not a registered check.
"""

import argparse
import os
import shutil
import subprocess
import sys
import tempfile
from pathlib import Path

ROOT = Path(__file__).resolve().parent.parent


def main():
    ap = argparse.ArgumentParser()
    ap.add_argument("patch")
    ap.add_argument("props", nargs="+")
    ap.add_argument("--tier", default="quick")
    ap.add_argument("--tests", action="store_true", help="also run the repository test-suite on the mutant")
    ap.add_argument("--seed", default="1")
    args = ap.parse_args()
    scratch = tempfile.mkdtemp(prefix="pv_mut_")
    try:
        dst = os.path.join(scratch, "repo")
        shutil.copytree("/repo", dst, ignore=shutil.ignore_patterns(".git", "__pycache__", "*.pyc", ".pytest_cache"))
        r = subprocess.run(["patch", "-p1", "-d", dst, "-i", os.path.abspath(args.patch)], capture_output=True, text=True)
        if r.returncode != 0:
            print("patch failed:", r.stdout, r.stderr)
            return 2
        results = {}
        for p in args.props:
            env = dict(os.environ, PV_REPO=dst, VERIF_SEED=args.seed, PV_OUT=os.path.join(scratch, "out"))
            env.pop("PYTHONPATH", None)
            pr = subprocess.run([str(ROOT / "check"), p, "--tier", args.tier], cwd=str(ROOT), env=env,
                                capture_output=True, text=True)
            viol = [l for l in pr.stdout.splitlines() if l.startswith("VIOLATION")]
            tail = [l for l in pr.stdout.splitlines() if l.startswith(p)]
            results[p] = pr.returncode
            print(f"{p}: exit={pr.returncode} violations={len(viol)} :: {tail[-1] if tail else pr.stdout[-300:]}")
            for l in pr.stdout.splitlines():
                if l.startswith("  ") and "|" in l:
                    print("   ", l.strip()[:220])
                    break
        if args.tests:
            tr = subprocess.run([sys.executable, "-m", "pytest", "-q", "-p", "no:cacheprovider", "-n", "16", "-x", "pyanalyze"],
                                cwd=dst, capture_output=True, text=True, env=dict(os.environ, PYTHONPATH=dst))
            print("repo tests on mutant:", tr.stdout.strip().splitlines()[-1] if tr.stdout.strip() else tr.stderr[-300:])
        return 0
    finally:
        shutil.rmtree(scratch, ignore_errors=True)


if __name__ == "__main__":
    sys.exit(main())

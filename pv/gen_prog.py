"""G-typed: annotated functions whose bodies are well-typed by construction, plus the
instrumentation that executes the same source and compares every evaluated expression with
the type pyanalyze inferred for it.

The generator works on source text (always syntactically valid by construction) and keeps a
generator-side environment {variable: type source}; every assignment to a variable uses an
expression of that variable's fixed type.
"""

from __future__ import annotations

import ast
import itertools

from hypothesis import strategies as st

from pv import member, universe
from pv.universe import NS

HEADER = "from typing import *\nfrom typing_extensions import *\nfrom pv_vocab import *\n"

# type source -> literal expressions of that type (source), used as leaves
LITERALS = {
    "int": ["0", "1", "2", "-1", "255"],
    "bool": ["True", "False"],
    "str": ['""', '"a"', '"ab"'],
    "float": ["0.0", "1.5"],
    "bytes": ['b""', 'b"a"'],
    "None": ["None"],
    "A": ["A()", "B()"],
    "B": ["B()"],
    "E": ["E.a", "E.b"],
    "list[int]": ["[]", "[1]", "[1, 2]"],
    "list[str]": ["[]", '["a"]'],
    "tuple[int, str]": ['(1, "a")', '(0, "")'],
    "tuple[int, ...]": ["()", "(1,)", "(1, 2)"],
    "dict[str, int]": ["{}", '{"a": 1}'],
    "set[int]": ["set()", "{1}"],
    "Optional[int]": ["None", "1"],
    "Optional[A]": ["None", "A()"],
    "int | str": ["1", '"a"'],
    "Literal[1, 2]": ["1", "2"],
    'Literal["a", "b"]': ['"a"', '"b"'],
    "object": ["1", '"a"', "None"],
    "Optional[str]": ["None", '"a"'],
    "list[int] | None": ["None", "[1]"],
    "int | str | None": ["None", "1", '"a"'],
    "tuple[int, str] | None": ["None", '(1, "a")'],
    "E | None": ["None", "E.a"],
    "A | int": ["A()", "1"],
}
PARAM_TYPES = list(LITERALS)
# what can be used where a value of the key type is expected
SUBTYPES = {
    "int": ["int", "bool", "Literal[1, 2]"],
    "float": ["float", "int", "bool"],
    "A": ["A", "B"],
    "object": list(LITERALS),
    "Optional[int]": ["Optional[int]", "int", "None", "bool"],
    "Optional[A]": ["Optional[A]", "A", "B", "None"],
    "Optional[str]": ["Optional[str]", "str", "None", 'Literal["a", "b"]'],
    "int | str": ["int | str", "int", "str", "bool"],
    "int | str | None": ["int | str | None", "int | str", "int", "str", "None", "Optional[int]", "Optional[str]"],
    "str": ["str", 'Literal["a", "b"]'],
    "list[int] | None": ["list[int] | None", "list[int]", "None"],
    "tuple[int, str] | None": ["tuple[int, str] | None", "tuple[int, str]", "None"],
    "E | None": ["E | None", "E", "None"],
    "A | int": ["A | int", "A", "B", "int", "bool"],
}


def accepts(t):
    return SUBTYPES.get(t, [t])


class Env:
    def __init__(self, vars_):
        self.vars = dict(vars_)  # name -> type
        self.counter = itertools.count()

    def of_type(self, t):
        ok = set(accepts(t))
        return [n for n, vt in self.vars.items() if vt in ok]

    def fresh(self):
        return f"x{next(self.counter)}"


@st.composite
def expr(draw, env: Env, t: str, depth: int = 2):
    """Source of an expression of (generator-side) type t."""
    cands = env.of_type(t)
    forms = ["lit"]
    if cands:
        forms += ["var", "var"]
    if depth > 0:
        forms.append("ifexp")
        if t in ("int", "float"):
            forms += ["arith", "len", "index", "neg", "call_ident", "tuple0"]
        if t == "bool":
            forms += ["cmp", "not", "boolop", "isinst", "isnone", "in"]
        if t == "str":
            forms += ["concat", "method", "tuple1", "strindex", "fstr"]
        if t in ("list[int]", "list[str]"):
            forms += ["listdisp", "slice", "listadd"]
        if t == "tuple[int, str]":
            forms += ["pair", "tupdisp"]
        if t == "tuple[int, ...]":
            forms += ["tupslice"]
        if t in ("Optional[int]", "Optional[str]", "Optional[A]"):
            forms += ["dictget"] if t == "Optional[int]" else []
        if t in ("A", "B", "E", "object", "int | str"):
            forms += ["call_ident"]
        if t == "object":
            forms += ["starindex", "starindex", "dictindex"]
    form = draw(st.sampled_from(forms))
    sub = lambda tt: draw(expr(env, tt, depth - 1))
    if form == "var":
        return draw(st.sampled_from(cands))
    if form == "lit":
        base = draw(st.sampled_from(accepts(t)))
        return draw(st.sampled_from(LITERALS.get(base, LITERALS.get(t, ["None"]))))
    if form == "ifexp":
        return f"({sub(t)} if {sub('bool')} else {sub(t)})"
    if form == "arith":
        op = draw(st.sampled_from(["+", "-", "*", "//", "%"]))
        if t == "float" and draw(st.booleans()):
            return f"({sub('float')} {draw(st.sampled_from(['+', '-', '*']))} {sub('int')})"
        return f"({sub('int')} {op} {sub('int')})" if t == "int" else f"({sub('float')} + {sub('float')})"
    if form == "len":
        return f"len({sub(draw(st.sampled_from(['list[int]', 'str', 'tuple[int, ...]', 'dict[str, int]', 'tuple[int, str]'])))})"
    if form == "index":
        src = draw(st.sampled_from(["list[int]", "tuple[int, ...]"]))
        return f"{sub(src)}[{draw(st.sampled_from(['0', '-1', '1']))}]"
    if form == "tuple0":
        return f"{sub('tuple[int, str]')}[{draw(st.sampled_from(['0', '-2']))}]"
    if form == "tuple1":
        return f"{sub('tuple[int, str]')}[{draw(st.sampled_from(['1', '-1']))}]"
    if form == "neg":
        return f"(-{sub('int')})"
    if form == "call_ident":
        return f"ident({sub(t)})"
    if form == "cmp":
        op = draw(st.sampled_from(["==", "!=", "<", ">=", "is", "is not"]))
        tt = draw(st.sampled_from(["int", "str"])) if op not in ("is", "is not") else "Optional[int]"
        if op in ("is", "is not"):
            return f"({sub(tt)} {op} None)"
        return f"({sub(tt)} {op} {sub(tt)})"
    if form == "not":
        return f"(not {sub('bool')})"
    if form == "boolop":
        return f"({sub('bool')} {draw(st.sampled_from(['and', 'or']))} {sub('bool')})"
    if form == "isinst":
        return f"isinstance({sub('object')}, {draw(st.sampled_from(['int', 'str', '(int, str)', 'A']))})"
    if form == "isnone":
        return f"({sub(draw(st.sampled_from(['Optional[int]', 'Optional[A]'])))} is None)"
    if form == "in":
        return f"({sub('int')} in {sub(draw(st.sampled_from(['list[int]', 'tuple[int, ...]', 'set[int]'])))})"
    if form == "concat":
        return f"({sub('str')} + {sub('str')})"
    if form == "method":
        return f"{sub('str')}.{draw(st.sampled_from(['upper', 'lower', 'strip']))}()"
    if form == "strindex":
        return f"{sub('str')}[{draw(st.sampled_from(['0', '-1', '0:1']))}]"
    if form == "fstr":
        return 'f"{' + sub("int") + '}x"'
    if form == "listdisp":
        et = "int" if t == "list[int]" else "str"
        n = draw(st.integers(0, 2))
        return "[" + ", ".join(sub(et) for _ in range(n)) + "]"
    if form == "slice":
        return f"{sub(t)}[{draw(st.sampled_from(['1:', ':1', '::2']))}]"
    if form == "listadd":
        return f"({sub(t)} + {sub(t)})"
    if form == "pair":
        return f"pair({sub('int')}, {sub('str')})"
    if form == "tupdisp":
        return f"({sub('int')}, {sub('str')})"
    if form == "tupslice":
        return f"{sub('tuple[int, ...]')}[{draw(st.sampled_from(['1:', ':1']))}]"
    if form == "starindex":
        return f"{draw(star_display(env, depth - 1))}[{draw(st.integers(-5, 5))}]"
    if form == "dictindex":
        return f"{sub('dict[str, int]')}[{sub('str')}]"
    if form == "dictget":
        return f"{sub('dict[str, int]')}.get({sub('str')})"
    return draw(st.sampled_from(LITERALS[t]))


SINGLE_TYPES = ["int", "str", "bytes", "None", "float", "E"]


@st.composite
def star_display(draw, env: Env, depth: int = 1):
    """A tuple or list display with one starred part of unknown length between single elements whose
    types differ: `(1, *xs, "a", b"z")`."""
    single = lambda: draw(expr(env, draw(st.sampled_from(SINGLE_TYPES)), max(depth, 0)))
    pre = [single() for _ in range(draw(st.integers(0, 2)))]
    post = [single() for _ in range(draw(st.integers(0, 4)))]
    star = "*" + draw(expr(env, draw(st.sampled_from(["tuple[int, ...]", "list[int]", "str", "list[str]"])), max(depth, 0)))
    parts = pre + [star] + post
    if draw(st.booleans()):
        return "[" + ", ".join(parts) + "]"
    return "(" + ", ".join(parts) + ("," if len(parts) == 1 else "") + ")"


# ----------------------------------------------------------------- narrowing conditions


@st.composite
def condition(draw, env: Env, depth: int = 1):
    """A condition, preferably one pyanalyze narrows on, over a variable in env."""
    names = list(env.vars)
    if not names or draw(st.integers(0, 5)) == 0:
        return draw(expr(env, "bool", 1))
    x = draw(st.sampled_from(names))
    t = env.vars[x]
    forms = ["truthy", "not", "eq", "ne"]
    if "None" in t or "Optional" in t:
        forms += ["isnone", "isnotnone", "isnone", "isnotnone"]
    if t in ("object", "int | str", "int | str | None", "A | int", "Optional[int]", "Optional[A]", "float", "A", "int",
             "Optional[str]", "list[int] | None", "tuple[int, str] | None"):
        forms += ["isinstance", "isinstance", "typeis"]
    if t in ("int", "Literal[1, 2]", "str", 'Literal["a", "b"]', "int | str", "Optional[int]", "E", "E | None", "int | str | None"):
        forms += ["in", "notin", "eq", "ne"]
    if t in ("E", "E | None", "bool"):
        forms += ["is_member"]
    if t in ("list[int]", "list[str]", "tuple[int, ...]", "str", "list[int] | None", "dict[str, int]", "tuple[int, str]"):
        forms += ["len", "len"]
    if depth > 0:
        forms += ["and", "or", "notc", "chain", "chain"]
    form = draw(st.sampled_from(forms))
    lit_pool = {"int": ["0", "1", "2"], "str": ['"a"', '"b"', '""'], "E": ["E.a", "E.b"], "bool": ["True", "False"]}
    base = "str" if "str" in t and "int" not in t else "E" if t.startswith("E") else "bool" if t == "bool" else "int"
    lits = lit_pool.get(base, ["0", "1"])
    if "int | str" in t:
        lits = ["1", '"a"', "0"]
    if form == "truthy":
        return x
    if form == "not":
        return f"not {x}"
    if form == "isnone":
        return f"{x} is None"
    if form == "isnotnone":
        return f"{x} is not None"
    if form == "isinstance":
        c = draw(st.sampled_from(["int", "str", "bool", "float", "A", "B", "list", "tuple", "(int, str)", "(A, int)", "int | str"]))
        return f"isinstance({x}, {c})"
    if form == "typeis":
        return f"{draw(st.sampled_from(['is_int', 'is_str', 'is_a']))}({x})"
    if form == "eq":
        return f"{x} == {draw(st.sampled_from(lits))}"
    if form == "ne":
        return f"{x} != {draw(st.sampled_from(lits))}"
    if form == "in":
        k = draw(st.lists(st.sampled_from(lits), min_size=1, max_size=2, unique=True))
        return f"{x} in ({', '.join(k)},)"
    if form == "notin":
        k = draw(st.lists(st.sampled_from(lits), min_size=1, max_size=2, unique=True))
        return f"{x} not in [{', '.join(k)}]"
    if form == "is_member":
        return f"{x} {draw(st.sampled_from(['is', 'is not']))} {draw(st.sampled_from(lits))}"
    if form == "len":
        op = draw(st.sampled_from(["==", "!=", ">", ">=", "<", "<="]))
        return f"len({x}) {op} {draw(st.sampled_from(['0', '1', '2']))}" if "None" not in t else f"{x} is not None and len({x}) {op} 1"
    if form == "chain":
        # three or four operands: tests on one variable interleaved with operands that constrain nothing
        # (an opaque call, a comparison of non-literals) or another variable
        one = Env({x: t})
        opaque = st.sampled_from(["cond()", "cond() == cond()", "call() is None"])
        parts = [draw(condition(one, 0))]
        for _ in range(draw(st.integers(2, 3))):
            parts.append(draw(st.one_of(opaque, condition(one, 0), condition(env, 0))))
        op = draw(st.sampled_from([" or ", " and "]))
        text = op.join(f"({p})" for p in parts)
        return f"not ({text})" if draw(st.integers(0, 3)) == 0 else text
    if form == "and":
        return f"({draw(condition(env, 0))}) and ({draw(condition(env, 0))})"
    if form == "or":
        return f"({draw(condition(env, 0))}) or ({draw(condition(env, 0))})"
    return f"not ({draw(condition(env, 0))})"


# ----------------------------------------------------------------- statements


@st.composite
def block(draw, env: Env, ret_t: str, depth: int, in_loop: bool, indent: int):
    pad = "    " * indent
    lines = []
    n = draw(st.integers(1, 3))
    for _ in range(n):
        kinds = ["assign", "assign", "use", "use", "unpack", "use-index"]
        if depth > 0:
            kinds += ["if", "if", "ifelse", "for", "while", "try", "with", "match", "assert", "walrus", "stored-test", "stored-test", "loop-carried"]
        kinds.append("return")
        if in_loop:
            kinds += ["break", "continue"]
        k = draw(st.sampled_from(kinds))
        if k == "assign":
            if env.vars and draw(st.booleans()):
                name = draw(st.sampled_from(sorted(env.vars)))
                t = env.vars[name]
            else:
                name, t = env.fresh(), draw(st.sampled_from(PARAM_TYPES))
            lines.append(f"{pad}{name} = {draw(expr(env, t, 2))}")
            env.vars[name] = t
        elif k == "use-index":
            # an indexing expression of no particular type, observed directly
            lines.append(f"{pad}use({draw(star_display(env, 1))}[{draw(st.integers(-5, 5))}])")
        elif k == "unpack":
            form = draw(st.sampled_from(["pair", "head", "last", "star", "nested"]))
            a, b, r = env.fresh(), env.fresh(), env.fresh()
            if form == "pair":
                lines.append(f"{pad}{a}, {b} = {draw(expr(env, 'tuple[int, str]', 2))}")
                env.vars[a], env.vars[b] = "int", "str"
            elif form == "head":
                lines.append(f"{pad}{a}, *{r} = {draw(expr(env, draw(st.sampled_from(['list[int]', 'tuple[int, ...]'])), 1))}")
                env.vars[a], env.vars[r] = "int", "list[int]"
            elif form == "last":
                lines.append(f"{pad}*{r}, {b} = {draw(expr(env, 'list[str]', 1))}")
                env.vars[b], env.vars[r] = "str", "list[str]"
            elif form == "nested":
                lines.append(f"{pad}({a}, {b}), {r} = ({draw(expr(env, 'tuple[int, str]', 1))}, {draw(expr(env, 'list[int]', 1))})")
                env.vars[a], env.vars[b], env.vars[r] = "int", "str", "list[int]"
            else:
                targets = draw(st.sampled_from([f"{a}, *{r}, {b}", f"*{r}, {a}, {b}", f"{a}, {b}, *{r}", f"{a}, *{r}"]))
                lines.append(f"{pad}{targets} = {draw(star_display(env, 1))}")
                lines.append(f"{pad}use({r})")
                env.vars[a] = "object"
                if b in targets:
                    env.vars[b] = "object"
            lines.append(f"{pad}use({a})")
        elif k == "use":
            if env.vars:
                lines.append(f"{pad}use({draw(st.sampled_from(sorted(env.vars)))})")
            else:
                lines.append(f"{pad}use({draw(expr(env, 'int', 1))})")
        elif k in ("if", "ifelse"):
            lines.append(f"{pad}if {draw(condition(env))}:")
            lines += draw(block(Env_copy(env), ret_t, depth - 1, in_loop, indent + 1))
            if draw(st.integers(0, 3)) == 0:
                lines.append(f"{pad}elif {draw(condition(env))}:")
                lines += draw(block(Env_copy(env), ret_t, depth - 1, in_loop, indent + 1))
            if k == "ifelse":
                lines.append(f"{pad}else:")
                lines += draw(block(Env_copy(env), ret_t, depth - 1, in_loop, indent + 1))
        elif k == "for":
            it_t = draw(st.sampled_from(["list[int]", "tuple[int, ...]", "str", "list[str]", "dict[str, int]"]))
            el_t = {"list[int]": "int", "tuple[int, ...]": "int", "str": "str", "list[str]": "str", "dict[str, int]": "str"}[it_t]
            name = env.fresh()
            inner = Env_copy(env)
            how = draw(st.sampled_from(["plain", "plain", "enumerate", "items", "pairs"]))
            if how == "enumerate":
                idx = env.fresh()
                lines.append(f"{pad}for {idx}, {name} in enumerate({draw(expr(env, it_t, 1))}):")
                inner.vars[idx] = "int"
            elif how == "items":
                val = env.fresh()
                lines.append(f"{pad}for {name}, {val} in {draw(expr(env, 'dict[str, int]', 1))}.items():")
                el_t = "str"
                inner.vars[val] = "int"
            elif how == "pairs":
                second = env.fresh()
                n_pairs = draw(st.integers(0, 2))
                lines.append(f"{pad}for {name}, {second} in [{', '.join(draw(expr(env, 'tuple[int, str]', 1)) for _ in range(n_pairs))}]:")
                el_t = "int"
                inner.vars[second] = "str"
            else:
                lines.append(f"{pad}for {name} in {draw(expr(env, it_t, 1))}:")
            inner.vars[name] = el_t
            lines += draw(block(inner, ret_t, depth - 1, True, indent + 1))
        elif k == "while":
            lines.append(f"{pad}while cond():")
            lines += draw(block(Env_copy(env), ret_t, depth - 1, True, indent + 1))
        elif k == "try":
            lines.append(f"{pad}try:")
            lines.append(f"{pad}    call()")
            lines += draw(block(Env_copy(env), ret_t, depth - 1, in_loop, indent + 1))
            lines.append(f"{pad}except Boom:")
            lines += draw(block(Env_copy(env), ret_t, depth - 1, in_loop, indent + 1))
            if draw(st.booleans()):
                lines.append(f"{pad}finally:")
                lines += draw(block(Env_copy(env), ret_t, depth - 1, False, indent + 1))
        elif k == "with":
            lines.append(f"{pad}with {draw(st.sampled_from(['Suppress', 'NoSuppress']))}():")
            lines.append(f"{pad}    call()")
            lines += draw(block(Env_copy(env), ret_t, depth - 1, in_loop, indent + 1))
        elif k == "match":
            if not env.vars:
                continue
            x = draw(st.sampled_from(sorted(env.vars)))
            lines.append(f"{pad}match {x}:")
            pats = draw(st.lists(st.sampled_from([
                "int()", "str()", "None", "1", '"a"', "A()", "[]", "[_, *_]", "(_, _)", "{}", "int() | str()",
                "E.a", "[int(), str()]", "bool()", "list()", "tuple()", "_ if cond()",
                # sequence patterns with the star in every position and with as many fixed
                # positions as short tuples have elements
                "[*_]", "[*_, _]", "[_, _, *_]", "[_, *_, _]", "[*_, _, _]", "[_]", "[_, _]", "[_, _, _]",
                "[first, *rest]", "[*init, last]", "[a, b, *rest]", "(a, b)", "[int(), *_]", "[*_, str()]",
            ]), min_size=1, max_size=3, unique=True))
            for pat in pats:
                lines.append(f"{pad}    case {pat}:")
                inner = Env_copy(env)
                lines.append(f"{pad}        use({x})")
                lines += draw(block(inner, ret_t, max(depth - 2, 0), in_loop, indent + 2))
            if draw(st.booleans()):
                lines.append(f"{pad}    case _:")
                lines.append(f"{pad}        use({x})")
        elif k == "loop-carried":
            # a value carried from one iteration to the next: read at the top of the body, reassigned further down; the
            # body ends normally, in `continue` (alone or on every branch of an if / else) or in a conditional jump
            t = draw(st.sampled_from(["int | str", "Optional[int]", "object", "int | str | None", "Optional[str]"]))
            name = env.fresh()
            lines.append(f"{pad}{name} = {draw(expr(env, t, 0))}")
            head = draw(st.sampled_from(["for _k in it():", "while cond():", "for _k in (1, 2, 3):"]))
            lines.append(f"{pad}{head}")
            lines.append(f"{pad}    use({name})")
            lines.append(f"{pad}    {name} = {draw(expr(env, t, 1))}")
            tail = draw(st.sampled_from(["none", "continue", "both-continue", "cond-continue", "cond-break", "use"]))
            if tail == "continue":
                lines.append(f"{pad}    continue")
            elif tail == "both-continue":
                lines += [f"{pad}    if cond():", f"{pad}        continue", f"{pad}    else:", f"{pad}        continue"]
            elif tail == "cond-continue":
                lines += [f"{pad}    if cond():", f"{pad}        continue", f"{pad}    {name} = {draw(expr(env, t, 0))}"]
            elif tail == "cond-break":
                lines += [f"{pad}    if cond():", f"{pad}        break"]
            elif tail == "use":
                lines.append(f"{pad}    use({name})")
            env.vars[name] = t
            lines.append(f"{pad}use({name})")
        elif k == "stored-test":
            # a narrowing test kept in a variable, the tested name possibly rebound (conditionally) before the
            # variable is branched on
            if not env.vars:
                continue
            x = draw(st.sampled_from(sorted(env.vars)))
            t = env.vars[x]
            flag = env.fresh()
            lines.append(f"{pad}{flag} = {draw(condition(Env({x: t}), 0))}")
            rebind = draw(st.sampled_from(["none", "cond", "cond", "always", "loop", "other-branch"]))
            if rebind == "cond":
                lines += [f"{pad}if cond():", f"{pad}    {x} = {draw(expr(env, t, 1))}"]
            elif rebind == "always":
                lines.append(f"{pad}{x} = {draw(expr(env, t, 1))}")
            elif rebind == "loop":
                lines += [f"{pad}for _k in it():", f"{pad}    {x} = {draw(expr(env, t, 1))}"]
            elif rebind == "other-branch":
                lines += [f"{pad}if cond():", f"{pad}    pass", f"{pad}else:", f"{pad}    {x} = {draw(expr(env, t, 1))}"]
            env.vars[flag] = "bool"
            how = draw(st.sampled_from(["if", "ifnot", "assert", "and"]))
            if how == "assert":
                lines += [f"{pad}assert {flag}", f"{pad}use({x})"]
            else:
                test = {"if": flag, "ifnot": f"not {flag}", "and": f"{flag} and cond()"}[how]
                lines.append(f"{pad}if {test}:")
                lines.append(f"{pad}    use({x})")
                lines += draw(block(Env_copy(env), ret_t, depth - 1, in_loop, indent + 1))
                if draw(st.booleans()):
                    lines += [f"{pad}else:", f"{pad}    use({x})"]
        elif k == "assert":
            lines.append(f"{pad}assert {draw(condition(env))}")
        elif k == "walrus":
            name = env.fresh()
            t = draw(st.sampled_from(["Optional[int]", "Optional[A]", "Optional[str]"]))
            lines.append(f"{pad}if ({name} := {draw(expr(env, t, 1))}) is not None:")
            inner = Env_copy(env)
            inner.vars[name] = t
            lines.append(f"{pad}    use({name})")
            lines += draw(block(inner, ret_t, depth - 1, in_loop, indent + 1))
        elif k == "return":
            lines.append(f"{pad}return {draw(expr(env, ret_t, 1))}")
            break
        elif k in ("break", "continue"):
            lines.append(f"{pad}{k}")
            break
    if not lines:
        lines.append(f"{pad}pass")
    return lines


def Env_copy(env):
    e = Env(env.vars)
    e.counter = env.counter
    return e


@st.composite
def function(draw, name: str, depth: int = 2):
    n = draw(st.integers(1, 3))
    ptypes = [draw(st.sampled_from(PARAM_TYPES)) for _ in range(n)]
    ret_t = draw(st.sampled_from(["int", "str", "bool", "Optional[int]", "object", "A"]))
    params = [f"p{i}" for i in range(n)]
    env = Env(dict(zip(params, ptypes)))
    body = draw(block(env, ret_t, depth, False, 1))
    # every variable in scope at the end is used once more, then a final return
    for v in sorted(env.vars):
        if v in params or any(l.strip().startswith(f"{v} =") and l.startswith("    " + v) for l in body):
            body.append(f"    use({v})")
    body.append(f"    return {draw(expr(env, ret_t, 1))}")
    head = f"def {name}({', '.join(f'{p}: {t}' for p, t in zip(params, ptypes))}) -> {ret_t}:"
    return {"name": name, "src": "\n".join([head] + body), "ptypes": ptypes}


# ----------------------------------------------------------------- instrumentation

CHECKED = (ast.Name, ast.Subscript, ast.Call, ast.BinOp, ast.IfExp, ast.Attribute, ast.Compare, ast.BoolOp, ast.UnaryOp)
VOCAB_NAMES = set(NS) | {"__pv_rec"}


class Instrument(ast.NodeTransformer):
    """Wrap every checked expression e (Load context) as __pv_rec(k, e), k = index of the node
    in ast.walk order of the *uninstrumented* tree."""

    def __init__(self, index):
        self.index = index

    def visit_Call(self, node):
        # keep the callee position untouched when it is a plain name
        if isinstance(node.func, ast.Name):
            node.args = [self.visit(a) for a in node.args]
            node.keywords = [self.visit(k) for k in node.keywords]
            return self._wrap(node)
        return self._wrap(self.generic_visit(node))

    def visit_Name(self, node):
        if isinstance(node.ctx, ast.Load) and node.id not in VOCAB_NAMES and id(node) in self.index:
            return self._wrap(node)
        return node

    def visit_match_case(self, node):
        node.body = [self.visit(s) for s in node.body]
        if node.guard is not None:
            node.guard = self.visit(node.guard)
        return node

    def visit_FunctionDef(self, node):
        node.body = [self.visit(s) for s in node.body]
        return node

    def visit_JoinedStr(self, node):
        return node

    def generic_visit(self, node):
        return super().generic_visit(node)

    def _wrap(self, node):
        if id(node) not in self.index:
            return node
        if isinstance(getattr(node, "ctx", ast.Load()), (ast.Store, ast.Del)):
            return node
        return ast.copy_location(
            ast.Call(func=ast.Name(id="__pv_rec", ctx=ast.Load()), args=[ast.Constant(self.index[id(node)]), node], keywords=[]),
            node,
        )

    def visit_Subscript(self, node):
        node = self.generic_visit(node)
        return self._wrap(node)

    visit_BinOp = visit_IfExp = visit_Attribute = visit_Compare = visit_BoolOp = visit_UnaryOp = visit_Subscript


def instrument(src):
    """Returns (code object, {k: node}) for the instrumented module."""
    tree = ast.parse(src)
    nodes = list(ast.walk(tree))
    index = {id(n): k for k, n in enumerate(nodes) if isinstance(n, CHECKED)}
    by_k = {k: n for k, n in enumerate(nodes) if isinstance(n, CHECKED)}
    new = Instrument(index).visit(tree)
    ast.fix_missing_locations(new)
    return compile(new, "<pv-dynamic>", "exec"), by_k


def arg_tuples(ptypes, limit=8):
    pools = []
    for t in ptypes:
        ty = member.from_rt(universe.eval_type(t))
        objs = member.inhabitants(ty, 6)
        pools.append(objs or [None])
    out = []
    for i, combo in enumerate(itertools.product(*pools)):
        out.append(combo)
        if len(out) >= limit * 4:
            break
    # spread: take every k-th so that later pool entries are reached too
    step = max(1, len(out) // limit)
    return out[::step][:limit]

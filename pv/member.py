"""Three-valued membership model: does runtime object o belong to a type?

Never calls can_assign.  Types are first translated into small tuple terms
("Ty") from either a pyanalyze Value (from_value) or a runtime typing object
(from_rt); mem(o, ty) returns True / False / None (= Unknown, the oracle
abstains).
"""

from __future__ import annotations

import collections.abc as cabc
import enum
import types
import typing
from typing import Any

import typing_extensions

from pv import sut  # noqa: F401  (sets sys.path)
from pyanalyze import value as V

UNKNOWN = None

# ----------------------------------------------------------------- three-valued logic


def and3(items):
    unk = False
    for x in items:
        if x is False:
            return False
        if x is None:
            unk = True
    return None if unk else True


def or3(items):
    unk = False
    for x in items:
        if x is True:
            return True
        if x is None:
            unk = True
    return None if unk else False


def not3(x):
    return None if x is None else (not x)


# ----------------------------------------------------------------- literal equality


def canon(o):
    """Type-aware canonical form so that True != 1 != 1.0."""
    t = type(o)
    if t in (list, tuple):
        return (t.__name__, tuple(canon(x) for x in o))
    if t in (set, frozenset):
        return (t.__name__, tuple(sorted((canon(x) for x in o), key=repr)))
    if t is dict:
        return ("dict", tuple((canon(k), canon(v)) for k, v in o.items()))
    if t is float:
        return ("float", 0.0 if o == 0 else o)
    if t in (int, bool, str, bytes, complex, type(None)):
        return (t.__name__, o)
    return ("obj", id(o))


def lit_eq(o, v):
    if o is v:
        return True
    if type(o) is not type(v):
        return False
    if isinstance(o, types.UnionType):
        return o == v
    if hasattr(o, "__self__") and hasattr(v, "__self__") and hasattr(o, "__name__"):
        # bound methods of equal receivers are the same literal (fresh object per access)
        return o.__name__ == getattr(v, "__name__", None) and lit_eq(o.__self__, v.__self__)
    try:
        return canon(o) == canon(v)
    except Exception:
        return False


# ----------------------------------------------------------------- terms

ANY = ("any",)
NEVER = ("union", ())
CALLABLE = ("callable", False)


def union(tys):
    flat = []
    for t in tys:
        if t[0] == "union":
            flat.extend(t[1])
        else:
            flat.append(t)
    if len(flat) == 1:
        return flat[0]
    return ("union", tuple(flat))


_ITER_ABCS = {
    cabc.Sequence, cabc.Iterable, cabc.Collection, cabc.Container, cabc.Reversible,
    cabc.MutableSequence, cabc.Set, cabc.MutableSet, cabc.Iterator,
}
_MAP_ABCS = {cabc.Mapping, cabc.MutableMapping}
_CONCRETE_SEQ = {list, set, frozenset}


def is_protocol(cls):
    return isinstance(cls, type) and getattr(cls, "_is_protocol", False) and cls not in (
        typing.Protocol, typing_extensions.Protocol)


def protocol_members(cls):
    attrs = getattr(cls, "__protocol_attrs__", None)
    if attrs is not None:
        return set(attrs)
    names = set()
    for base in cls.__mro__:
        if base in (object, typing.Protocol, typing.Generic, typing_extensions.Protocol):
            continue
        if not getattr(base, "_is_protocol", False):
            continue
        names |= set(getattr(base, "__annotations__", {}))
        for k, v in vars(base).items():
            if k.startswith("_abc_") or k in (
                "__module__", "__dict__", "__weakref__", "__doc__", "__annotations__",
                "__parameters__", "__orig_bases__", "_is_protocol", "_is_runtime_protocol",
                "__abstractmethods__", "__init__", "__subclasshook__", "__slots__",
                "__protocol_attrs__", "__non_callable_proto_members__", "__firstlineno__",
                "__static_attributes__", "__type_params__", "__class_getitem__",
            ):
                continue
            names.add(k)
    return names


# ----------------------------------------------------------------- from runtime typing objects


_tv_subst: dict = {}


def user_generic(cls, arg_tys):
    """A user-defined generic class that derives from generic bases (class Rev(Dict[V, K], Generic[K, V])):
    ("ugen", cls, base types with the class's own parameters replaced by arg_tys), or None.  The order of
    the class's parameters is the one CPython computes (`cls.__parameters__`: Generic[...] decides if present)."""
    params = getattr(cls, "__parameters__", ())
    bases = [b for b in getattr(cls, "__orig_bases__", ())
             if typing_extensions.get_origin(b) not in (typing.Generic, typing.Protocol, typing_extensions.Protocol)]
    if not params or len(params) != len(arg_tys) or not bases or getattr(cls, "__module__", "") != "pv_vocab":
        return None
    old = dict(_tv_subst)
    _tv_subst.update(zip(params, arg_tys))
    try:
        return ("ugen", cls, tuple(from_rt(b) for b in bases))
    finally:
        _tv_subst.clear()
        _tv_subst.update(old)


def from_rt(t) -> tuple:
    if t is Any or t is typing_extensions.Any:
        return ANY
    if isinstance(t, typing.TypeVar) and t in _tv_subst:
        return _tv_subst[t]
    if t is None or t is type(None):
        return ("lit", None)
    if t is typing.NoReturn or t is typing_extensions.Never or t is getattr(typing, "Never", object()):
        return NEVER
    if isinstance(t, typing.TypeVar):
        return from_typevar(t)
    if hasattr(t, "__supertype__"):  # NewType
        return ("newtype", t, t.__supertype__)
    origin = typing_extensions.get_origin(t)
    args = typing_extensions.get_args(t)
    if origin is typing.Annotated or origin is typing_extensions.Annotated:
        return from_rt(args[0])
    if origin is typing.Literal or origin is typing_extensions.Literal:
        return union([("lit", a) for a in args])
    if origin is typing.Union or origin is types.UnionType:
        return union([from_rt(a) for a in args])
    if origin in (typing.Final, typing.ClassVar, typing_extensions.Required,
                  typing_extensions.NotRequired, typing_extensions.ReadOnly):
        return from_rt(args[0])
    if origin is tuple or t is typing.Tuple:
        if t is typing.Tuple or (origin is tuple and not args and t is not tuple
                                 and getattr(t, "__args__", None) is None):
            return ("cls", tuple)
        return from_tuple_args(args, t)
    if origin is type:
        if not args:
            return ("cls", type)
        a = args[0]
        if a is Any:
            return ("cls", type)
        return ("type", from_rt(a), False)
    if origin is cabc.Callable:
        if args and args[0] is Ellipsis:
            return CALLABLE
        return ("callable", True)
    if origin is not None and isinstance(origin, type):
        if typing_extensions.is_typeddict(origin):
            return ("unknown", "generic typeddict")
        ug = user_generic(origin, tuple(from_rt(a) for a in args))
        if ug is not None:
            return ug
        return ("gen", origin, tuple(from_rt(a) for a in args))
    if typing_extensions.is_typeddict(t):
        return from_typeddict(t)
    if isinstance(t, type):
        if t is cabc.Callable:
            return CALLABLE
        return ("cls", t)
    if t is typing.Callable:
        return CALLABLE
    if t in (typing.List, typing.Set, typing.FrozenSet, typing.Dict, typing.Type,
             typing.Sequence, typing.Mapping, typing.Iterable):
        return ("cls", typing_extensions.get_origin(t))
    return ("unknown", f"rt:{t!r}")


def from_tuple_args(args, t=None):
    if len(args) == 1 and args[0] == ():
        return ("tuple", tuple, ())
    if len(args) == 2 and args[1] is Ellipsis:
        return ("tuple", tuple, ((True, from_rt(args[0])),))
    members = []
    for a in args:
        if typing_extensions.get_origin(a) is typing_extensions.Unpack or getattr(
            a, "__unpacked__", False
        ) or (typing_extensions.get_origin(a) is tuple and getattr(a, "__unpacked__", False)):
            inner = typing_extensions.get_args(a)[0] if typing_extensions.get_origin(a) is typing_extensions.Unpack else a
            iargs = typing_extensions.get_args(inner)
            sub = from_tuple_args(iargs)
            members.extend(sub[2])
        else:
            members.append((False, from_rt(a)))
    return ("tuple", tuple, tuple(members))


def from_typeddict(t):
    hints = typing_extensions.get_type_hints(t)
    req = getattr(t, "__required_keys__", frozenset(hints))
    items = {k: (from_rt(v), k in req) for k, v in hints.items()}
    closed = getattr(t, "__closed__", None)
    extra = getattr(t, "__extra_items__", None)
    if closed:
        return ("td", tuple(sorted(items.items())), NEVER)
    if extra is not None and extra is not typing_extensions.NoExtraItems if hasattr(typing_extensions, "NoExtraItems") else extra is not None:
        return ("td", tuple(sorted(items.items())), from_rt(extra))
    return ("td", tuple(sorted(items.items())), None)


def from_typevar(tv):
    if tv.__bound__ is not None:
        return ("tv", from_rt(tv.__bound__), ())
    if tv.__constraints__:
        return ("tv", None, tuple(from_rt(c) for c in tv.__constraints__))
    return ("tv", None, ())


# ----------------------------------------------------------------- from pyanalyze Values


def from_value(v) -> tuple:
    if isinstance(v, V.AnnotatedValue):
        return from_value(v.value)
    if isinstance(v, V.AnyValue):
        return ANY
    if isinstance(v, V.KnownValue):
        return ("lit", v.val)
    if isinstance(v, V.MultiValuedValue):
        return union([from_value(x) for x in v.vals])
    if isinstance(v, V.TypeAliasValue):
        try:
            return from_value(v.get_value())
        except Exception:
            return ("unknown", "alias")
    if isinstance(v, V.NewTypeValue):
        return ("newtype", v.newtype, v.typ)
    if isinstance(v, V.TypedDictValue):
        items = {k: (from_value(e.typ), e.required) for k, e in v.items.items()}
        extra = from_value(v.extra_keys) if v.extra_keys is not None else None
        return ("td", tuple(sorted(items.items())), extra)
    if isinstance(v, V.DictIncompleteValue):
        if not isinstance(v.typ, type):
            return ("unknown", "synthetic")
        return ("dictinc", v.typ, tuple(
            (from_value(p.key), from_value(p.value), p.is_many, p.is_required) for p in v.kv_pairs))
    if isinstance(v, V.SequenceValue):
        if not isinstance(v.typ, type):
            return ("unknown", "synthetic")
        return ("tuple", v.typ, tuple((many, from_value(m)) for many, m in v.members))
    if isinstance(v, V.CallableValue):
        return ("callable", True)
    if isinstance(v, V.AsyncTaskIncompleteValue):
        return ("unknown", "asynctask")
    if isinstance(v, V.GenericValue):
        if not isinstance(v.typ, type):
            return ("unknown", "synthetic")
        if v.typ is tuple:
            if len(v.args) == 1:
                return ("tuple", tuple, ((True, from_value(v.args[0])),))
            return ("unknown", "tuple-generic")
        ug = user_generic(v.typ, tuple(from_value(a) for a in v.args))
        if ug is not None:
            return ug
        return ("gen", v.typ, tuple(from_value(a) for a in v.args))
    if isinstance(v, V.TypedValue):
        if not isinstance(v.typ, type):
            return ("unknown", "synthetic")
        return ("cls", v.typ)
    if isinstance(v, V.SubclassValue):
        return ("type", from_value(v.typ), v.exactly)
    if isinstance(v, V.UnboundMethodValue):
        return ("callable", True)
    if isinstance(v, V.TypeVarValue):
        if v.bound is not None:
            return ("tv", from_value(v.bound), ())
        if v.constraints:
            return ("tv", None, tuple(from_value(c) for c in v.constraints))
        return ("tv", None, ())
    return ("unknown", type(v).__name__)


# ----------------------------------------------------------------- membership


def match_members(elems, members, start=0, mi=0, memo=None):
    """Regular-expression style match of a list of elements against
    [(is_many, ty), ...].  Three-valued."""
    if memo is None:
        memo = {}
    k = (start, mi)
    if k in memo:
        return memo[k]
    if mi == len(members):
        r = start == len(elems)
    else:
        many, ty = members[mi]
        if many:
            # zero elements
            opts = [match_members(elems, members, start, mi + 1, memo)]
            if start < len(elems):
                opts.append(and3([mem(elems[start], ty), match_members(elems, members, start + 1, mi, memo)]))
            r = or3(opts)
        elif start < len(elems):
            r = and3([mem(elems[start], ty), match_members(elems, members, start + 1, mi + 1, memo)])
        else:
            r = False
    memo[k] = r
    return r


def _safe_iter(o):
    if isinstance(o, (str, bytes, tuple, list, set, frozenset, dict, range)):
        return list(o)
    return None


def mem(o, ty):
    tag = ty[0]
    if tag == "any":
        return True
    if tag == "lit":
        return lit_eq(o, ty[1])
    if tag == "union":
        return or3(mem(o, t) for t in ty[1])
    if tag == "cls":
        return mem_cls(o, ty[1])
    if tag == "newtype":
        sup = ty[2]
        if not isinstance(sup, type):
            return None
        if type(o) is sup:
            return True
        # weak clause: pyanalyze documents "allow int for a NewType over int but not a
        # subtype such as an IntEnum"; instances of subclasses are left undecided
        return None if isinstance(o, sup) else False
    if tag == "gen":
        return mem_gen(o, ty[1], ty[2])
    if tag == "ugen":
        if not isinstance(o, ty[1]):
            return False
        return and3(mem(o, b) for b in ty[2])
    if tag == "tuple":
        cls, members = ty[1], ty[2]
        if not isinstance(o, cls):
            return False
        if cls in (set, frozenset):
            # unordered display: every element comes from some member and every
            # non-starred member's value is an element
            elems = list(o)
            res = [or3(mem(e, t) for _, t in members) for e in elems]
            for many, t in members:
                if not many:
                    res.append(or3(mem(e, t) for e in elems))
            return and3(res)
        return match_members(list(o), members)
    if tag == "dictinc":
        cls, pairs = ty[1], ty[2]
        if not isinstance(o, cls):
            return False
        res = []
        for k, val in o.items():
            res.append(or3(and3([mem(k, kt), mem(val, vt)]) for kt, vt, _, _ in pairs))
        for kt, vt, many, required in pairs:
            if required and not many:
                res.append(or3(and3([mem(k, kt), mem(val, vt)]) for k, val in o.items()))
        return and3(res)
    if tag == "td":
        items, extra = dict(ty[1]), ty[2]
        if not isinstance(o, dict):
            return False
        res = []
        for k in o:
            if not isinstance(k, str):
                return False
        for k, (t, required) in items.items():
            if k in o:
                res.append(mem(o[k], t))
            elif required:
                return False
        for k, val in o.items():
            if k not in items:
                if extra is not None:
                    res.append(mem(val, extra))
                else:
                    # open TypedDict: extra keys are structurally allowed; weak clause
                    res.append(True)
        return and3(res)
    if tag == "type":
        inner, exactly = ty[1], ty[2]
        if not isinstance(o, type):
            return False
        return mem_type(o, inner, exactly)
    if tag == "callable":
        if not callable(o):
            return False
        return None if ty[1] else True
    if tag == "tv":
        bound, constraints = ty[1], ty[2]
        if bound is not None:
            return mem(o, bound)
        if constraints:
            return or3(mem(o, c) for c in constraints)
        return True
    return None


def mem_type(cls, inner, exactly):
    tag = inner[0]
    if tag == "any":
        return True
    if tag == "cls":
        c = inner[1]
        if exactly:
            return cls is c
        if c is object:
            return True
        if is_protocol(c):
            return None
        try:
            if issubclass(cls, c):
                return True
        except TypeError:
            return None
        # numeric promotion also applies to type[float] <- int in pyanalyze's model? abstain
        if c in (float, complex) and cls in (int, bool, float):
            return None
        return False
    if tag == "union":
        return or3(mem_type(cls, t, exactly) for t in inner[1])
    if tag == "gen":
        r = mem_type(cls, ("cls", inner[1]), exactly)
        return False if r is False else None
    if tag == "tv":
        if inner[1] is not None:
            return mem_type(cls, inner[1], exactly)
        if inner[2]:
            return or3(mem_type(cls, t, exactly) for t in inner[2])
        return True
    if tag == "lit":
        return False if inner[1] is not None else (cls is type(None))
    return None


def mem_cls(o, c):
    if c is object:
        return True
    if c is float:
        return isinstance(o, (int, float))
    if c is complex:
        return isinstance(o, (int, float, complex))
    if is_protocol(c):
        if isinstance(o, (type, types.ModuleType)):
            return None  # class / module objects against protocols: not modelled
        names = protocol_members(c)
        hints = {}
        try:
            hints = typing_extensions.get_type_hints(c)
        except Exception:
            pass
        res = []
        for n in names:
            try:
                has = hasattr(o, n)
            except Exception:
                return None
            if not has:
                return False
            if n in hints:
                res.append(mem(getattr(o, n), from_rt(hints[n])))
            else:
                # method member: signature compatibility is C07's subject; trust only the
                # vocabulary's own implementers
                res.append(True if type(o).__module__ == "pv_vocab" else None)
        return and3(res)
    if c is cabc.Callable:
        return callable(o)
    if c is cabc.Hashable:
        try:
            hash(o)
            return True
        except TypeError:
            return False
    try:
        return isinstance(o, c)
    except TypeError:
        return None


def mem_gen(o, c, args):
    if c is tuple:
        return None
    if c in _CONCRETE_SEQ:
        if not isinstance(o, c):
            return False
        return and3(mem(e, args[0]) for e in o) if args else True
    if c is dict or c in _MAP_ABCS or (isinstance(c, type) and issubclass(c, dict)):
        if not isinstance(o, c):
            return False
        if len(args) != 2:
            return None
        if not isinstance(o, dict):
            return None
        return and3([m for k, v in o.items() for m in (mem(k, args[0]), mem(v, args[1]))])
    if c in _ITER_ABCS:
        if not isinstance(o, c):
            return False
        elems = _safe_iter(o)
        if elems is None:
            return None
        if isinstance(o, (str, bytes)) and not elems and args:
            # an empty str is nominally a Sequence[str]; whether it is "structurally" a
            # Sequence[X] for other X is not something the property fixes: abstain
            a0 = args[0]
            if a0[0] == "any" or (a0[0] == "cls" and a0[1] in (object, str if isinstance(o, str) else int)):
                return True
            return None
        r = and3(mem(e, args[0]) for e in elems) if args else True
        if r is True and isinstance(o, (str, bytes)) and args and _has_lit(args[0]):
            return None  # characters of a str against Literal element types: not modelled
        return r
    if c is type:
        if not isinstance(o, type):
            return False
        return mem_type(o, args[0], False) if args else True
    # user generics etc: only the nominal part is observable
    try:
        if not isinstance(o, c):
            return False
    except TypeError:
        return None
    return None


def member(o, value):
    """Membership of o in a pyanalyze Value."""
    return mem(o, from_value(value))


def member_rt(o, t):
    """Membership of o in a runtime typing object."""
    return mem(o, from_rt(t))


def has_top_any(ty):
    if ty[0] == "any":
        return True
    if ty[0] == "union":
        return any(has_top_any(t) for t in ty[1])
    return False


def contains_unknown(ty):
    if ty[0] == "unknown":
        return True
    for x in ty[1:]:
        if isinstance(x, tuple):
            if x and isinstance(x[0], str) and x[0] in (
                "any", "lit", "cls", "newtype", "gen", "tuple", "dictinc", "td", "type", "union",
                "callable", "tv", "unknown",
            ):
                if contains_unknown(x):
                    return True
            else:
                for y in x:
                    if isinstance(y, tuple) and contains_unknown_seq(y):
                        return True
    return False


def contains_unknown_seq(y):
    if y and isinstance(y[0], str) and y[0] == "unknown":
        return True
    for z in y:
        if isinstance(z, tuple) and contains_unknown_seq(z):
            return True
    return False


def _has_lit(ty):
    if ty[0] == "lit":
        return True
    if ty[0] == "union":
        return any(_has_lit(t) for t in ty[1])
    return False


# ----------------------------------------------------------------- witnesses

_FOREIGN = [None, "zz", 1.5, b"z", (9, 9, 9, 9), 12345]


def _uni():
    from pv.universe import UNIVERSE

    return [o.obj for o in UNIVERSE]


def _hashable(o):
    try:
        hash(o)
        return True
    except TypeError:
        return False


def _dedupe(objs, limit):
    out, seen = [], set()
    for o in objs:
        try:
            k = repr(canon(o)) + type(o).__name__
        except Exception:
            k = str(id(o))
        if k in seen:
            continue
        seen.add(k)
        out.append(o)
        if len(out) >= limit:
            break
    return out


def inhabitants(ty, limit=12, _depth=0):
    """Objects that are members of ty (checked with mem): universe members plus
    structurally built witnesses."""
    out = [o for o in _uni() if mem(o, ty) is True]
    out = structural(ty, _depth) + out
    out = [o for o in out if mem(o, ty) is True]
    return _dedupe(out, limit)


def structural(ty, _depth=0):
    tag = ty[0]
    if _depth > 3:
        return []
    sub = lambda t, n=3: inhabitants(t, n, _depth + 1)
    if tag == "lit":
        return [ty[1]]
    if tag == "union":
        out = []
        for t in ty[1]:
            out += structural(t, _depth)[:3]
        return out
    if tag == "ugen":
        out = []
        for w in sub(ty[2][0], 4):
            try:
                out.append(ty[1](w))
            except Exception:
                pass
        return out
    if tag == "gen":
        c, args = ty[1], ty[2]
        if c in (list, cabc.Sequence, cabc.Iterable, cabc.Collection, cabc.MutableSequence, cabc.Container, cabc.Reversible) and args:
            ws = sub(args[0])
            out = [[]] + [[w] for w in ws] + ([[ws[0], ws[-1]]] if ws else [])
            if c is not list:
                out += [(), tuple(ws[:2])]
            return out
        if c in (set, frozenset, cabc.Set, cabc.MutableSet) and args:
            ws = [w for w in sub(args[0]) if _hashable(w)]
            k = frozenset if c is frozenset else set
            return [k()] + [k([w]) for w in ws] + ([k(ws[:2])] if len(ws) > 1 else [])
        if (c is dict or c in _MAP_ABCS) and len(args) == 2:
            ks = [w for w in sub(args[0]) if _hashable(w)]
            vs = sub(args[1])
            out = [{}]
            if ks and vs:
                out += [{ks[0]: vs[0]}, {ks[-1]: vs[-1]}, dict(zip(ks, vs + vs))]
            return out
        return []
    if tag == "tuple":
        c, members = ty[1], ty[2]
        combos = [[]]
        for many, t in members:
            ws = sub(t, 2)
            if not ws and not many:
                return []
            nxt = []
            for base in combos[:6]:
                if many:
                    nxt.append(base)
                    for w in ws:
                        nxt.append(base + [w])
                    if ws:
                        nxt.append(base + [ws[0], ws[-1]])
                else:
                    for w in ws:
                        nxt.append(base + [w])
            combos = nxt
        out = []
        for cmb in combos[:10]:
            try:
                out.append(c(cmb))
            except TypeError:
                pass
        return out
    if tag == "td":
        items, extra = dict(ty[1]), ty[2]
        base = {}
        for k, (t, required) in items.items():
            ws = sub(t, 2)
            if not ws:
                if required:
                    return []
                continue
            if required:
                base[k] = ws[0]
        out = [dict(base)]
        full = dict(base)
        for k, (t, required) in items.items():
            ws = sub(t, 2)
            if ws:
                full[k] = ws[-1]
        out.append(full)
        # keys the type does not declare: anything for an open TypedDict, the extra-items type otherwise
        for k in ("a", "b", "c", "zz"):
            if k in items:
                continue
            if extra is None:
                for f in ("oops", 1, None):
                    out.append({**base, k: f})
            elif extra != NEVER:
                for w in sub(extra, 2)[:2]:
                    out.append({**base, k: w})
        return out
    if tag == "dictinc":
        c, pairs = ty[1], ty[2]
        d = {}
        for kt, vt, many, required in pairs:
            ks = [w for w in sub(kt, 2) if _hashable(w)]
            vs = sub(vt, 2)
            if ks and vs and (required or not many):
                d[ks[0]] = vs[0]
        return [d]
    if tag == "callable":
        return [len]
    if tag == "tv":
        if ty[1] is not None:
            return structural(ty[1], _depth)
        out = []
        for t in ty[2]:
            out += structural(t, _depth)[:2]
        return out
    return []


def near_misses(ty, limit=6):
    """Objects of the right outer shape that are NOT members (checked with mem)."""
    out = []
    tag = ty[0]
    if tag == "gen" and ty[2]:
        c, args = ty[1], ty[2]
        for f in _FOREIGN:
            if c in (list, cabc.Sequence, cabc.Iterable, cabc.Collection):
                out.append([f])
                ws = inhabitants(args[0], 1)
                if ws:
                    out.append([ws[0], f])
            elif c in (set, frozenset):
                out.append(c([f]))
            elif (c is dict or c in _MAP_ABCS) and len(args) == 2:
                ks = [w for w in inhabitants(args[0], 2) if _hashable(w)]
                vs = inhabitants(args[1], 2)
                if ks:
                    out.append({ks[0]: f})
                if vs:
                    out.append({f: vs[0]})
    elif tag == "tuple":
        for w in structural(ty)[:4]:
            if isinstance(w, tuple):
                out.append(w + (None,))
                out.append(w[:-1])
                if w:
                    for f in _FOREIGN[:3]:
                        out.append(w[:-1] + (f,))
                        out.append((f,) + w[1:])
    elif tag == "td":
        for w in structural(ty)[:2]:
            for k in list(w):
                d = dict(w)
                del d[k]
                out.append(d)
                for f in _FOREIGN[:3]:
                    d = dict(w)
                    d[k] = f
                    out.append(d)
    elif tag == "union":
        for t in ty[1]:
            out += near_misses(t, 3)
    out = [o for o in out if mem(o, ty) is False]
    return _dedupe(out, limit)


def to_src(o):
    """Source expression (in universe.NS) for an object, or None."""
    import enum as _enum

    from pv.universe import NS

    if o is None or isinstance(o, (bool, int, float, complex, str, bytes)) and not isinstance(o, _enum.Enum):
        if isinstance(o, float) and (o != o or o in (float("inf"), float("-inf"))):
            return None
        return repr(o)
    if isinstance(o, _enum.Flag) and type(o).__name__ in NS and o not in list(type(o)):
        # a combination of flag members (or the empty flag)
        return " | ".join(f"{type(o).__name__}.{m.name}" for m in o) or f"{type(o).__name__}(0)"
    if isinstance(o, _enum.Enum):
        return f"{type(o).__name__}.{o.name}" if type(o).__name__ in NS else None
    if type(o).__module__ == "pv_vocab" and type(o).__name__ in ("Rev", "Fwd", "IntKeyed", "LS"):
        inner = to_src(dict(o) if isinstance(o, dict) else list(o))
        return None if inner is None else f"{type(o).__name__}({inner})"
    if isinstance(o, (list, tuple, set, frozenset)):
        parts = [to_src(x) for x in o]
        if any(p is None for p in parts):
            return None
        if isinstance(o, list):
            return "[" + ", ".join(parts) + "]"
        if isinstance(o, tuple):
            return "(" + ", ".join(parts) + ("," if len(parts) == 1 else "") + ")"
        if isinstance(o, set):
            return "{" + ", ".join(parts) + "}" if parts else "set()"
        return "frozenset({" + ", ".join(parts) + "})" if parts else "frozenset()"
    if isinstance(o, dict):
        parts = [(to_src(k), to_src(v)) for k, v in o.items()]
        if any(a is None or b is None for a, b in parts):
            return None
        return "{" + ", ".join(f"{a}: {b}" for a, b in parts) + "}"
    if isinstance(o, type):
        for k, v in NS.items():
            if v is o and k.isidentifier() and k[0] != "_":
                return k
        return None
    name = type(o).__name__
    if name in ("A", "B", "C", "G", "WithX", "Closer", "Tr", "TrSub") and type(o).__module__ == "pv_vocab":
        return f"{name}()"
    if name == "D" and type(o).__module__ == "pv_vocab":
        return f"D({o.x!r}, {o.y!r})"
    for k, v in NS.items():
        if v is o and k.isidentifier() and k[0] != "_":
            return k
    return None

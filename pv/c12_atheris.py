"""Coverage-guided driver for C12 (thorough tier): the Hypothesis generator of pv/props/c12.py
is driven by libFuzzer through atheris, with pyanalyze's modules instrumented.

    python -m pv.c12_atheris <out.json> <seconds> <libfuzzer-seed>

Failures are not raised into libFuzzer (it would stop at the first one): they are keyed like in
the Hypothesis route, de-duplicated and written to <out.json> at exit.
"""

import json
import os
import sys
import time


def main():
    out_path, seconds, fseed = sys.argv[1], int(sys.argv[2]), int(sys.argv[3])
    root = os.path.dirname(os.path.dirname(os.path.abspath(__file__)))
    sys.path.insert(0, os.path.join(root, ".deps"))
    import atheris

    repo = os.environ.get("PV_REPO", "/repo")
    sys.path.insert(0, repo)
    sys.path.insert(0, root)
    with atheris.instrument_imports(include=["pyanalyze"]):
        import pyanalyze  # noqa: F401
        import pyanalyze.name_check_visitor  # noqa: F401
    import warnings

    warnings.filterwarnings("ignore")
    from hypothesis import given, settings, HealthCheck

    from pv import corpus
    from pv.props import c12

    found = {}
    stats = {"executions": 0, "programs": 0, "discarded": 0, "with_diagnostics": 0}
    deadline = time.time() + seconds
    devnull = open(os.devnull, "w")

    @settings(database=None, deadline=None, suppress_health_check=list(HealthCheck))
    @given(corpus.program_strategy(3), c12.config_strategy(fseed))
    def test(prog, cfg):
        origin, src, muts = prog
        old_out, old_err = sys.stdout, sys.stderr
        sys.stdout = sys.stderr = devnull
        try:
            r = c12.judge_program(src, cfg)
        finally:
            sys.stdout, sys.stderr = old_out, old_err
        stats["programs"] += 1
        if r[0] == "discard":
            stats["discarded"] += 1
            return
        if r[1]:
            stats["with_diagnostics"] += 1
        if r[0] == "fail":
            for key, what in r[2]:
                if key not in found:
                    found[key] = {"key": key, "what": f"{origin} mutated by {muts}: {what}",
                                  "case": {"src": src, "cfg": list(cfg) if isinstance(cfg, tuple) else cfg}}

    def one_input(data):
        stats["executions"] += 1
        if time.time() > deadline:
            finish()
        try:
            test.hypothesis.fuzz_one_input(data)
        except BaseException as e:  # generator errors must not stop the campaign
            if isinstance(e, (KeyboardInterrupt, SystemExit)):
                raise

    def finish():
        with open(out_path, "w") as f:
            json.dump({"failures": list(found.values()), "stats": stats}, f)
        os._exit(0)

    corpus_dir = out_path + ".corpus"
    os.makedirs(corpus_dir, exist_ok=True)
    atheris.Setup([sys.argv[0], f"-seed={fseed or 1}", f"-max_total_time={seconds + 30}", "-max_len=4096", "-len_control=0", corpus_dir], one_input)
    try:
        atheris.Fuzz()
    finally:
        finish()


if __name__ == "__main__":
    main()

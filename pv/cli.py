"""python -m pv.cli <ID> [--tier quick|thorough] [--replay F]"""

import argparse
import os
import sys


def main():
    ap = argparse.ArgumentParser()
    ap.add_argument("prop")
    ap.add_argument("--tier", default=os.environ.get("VERIF_TIER", "quick"),
                    choices=["quick", "thorough"])
    ap.add_argument("--replay", default=None)
    ap.add_argument("--nproc", type=int, default=None)
    args = ap.parse_args()

    if os.environ.get("PYTHONHASHSEED") is None:
        env = dict(os.environ, PYTHONHASHSEED="0")
        os.execve(sys.executable, [sys.executable, "-m", "pv.cli", *sys.argv[1:]], env)

    root = os.path.dirname(os.path.dirname(os.path.abspath(__file__)))
    if root not in sys.path:
        sys.path.insert(0, root)
    repo = os.environ.get("PV_REPO", "/repo")
    sys.path.insert(0, repo)
    os.environ["PV_REPO"] = repo
    # children (spawn) inherit the environment; make sure they import the same tree
    os.environ["PYTHONPATH"] = os.pathsep.join(
        [repo, root] + [p for p in os.environ.get("PYTHONPATH", "").split(os.pathsep) if p]
    )
    try:
        seed = int(os.environ.get("VERIF_SEED", "1"))
    except ValueError:
        seed = 1

    from pv import runner

    try:
        status = runner.run_property(args.prop.upper(), args.tier, seed,
                                     replay_path=args.replay, nproc=args.nproc)
    except SystemExit:
        raise
    except BaseException:
        import traceback

        traceback.print_exc()
        print(f"HARNESS-ERROR property={args.prop.upper()} runner crashed")
        status = 2
    sys.stdout.flush()
    os._exit(status)


if __name__ == "__main__":
    main()

"""Closed, side-effect-free vocabulary imported by generated programs:

    from pv_vocab import *
"""

import dataclasses
import enum
from typing import (
    Dict,
    List,
    Any,
    Callable,
    Generic,
    NewType,
    Optional,
    Protocol,
    TypeVar,
    Union,
)

from typing_extensions import NotRequired, TypedDict

__all__ = [
    "TDk",
    "Rev", "Fwd", "IntKeyed", "LS", "KT", "VT", "FSub", "ISub", "Pops", "T_co", "ANYTHING", "SENTINEL", "NAN", "Perm", "Dyn", "NodeP", "EdgeP", "MyNode", "MyEdge",
    "kwmap_int", "kwmap_str", "seq_int", "seq_str",
    "A", "B", "C", "D", "G", "E", "IE", "N", "TD", "TDp", "TDn", "HasX", "SupportsClose",
    "Suppress", "NoSuppress", "cond", "call", "use", "ident", "first", "pair", "apply_fn",
    "T", "U", "TB", "TC", "Tr", "TrSub", "WithX", "Closer", "R0", "R1", "R2", "R3",
    "Any", "Callable", "Generic", "Optional", "Protocol", "TypeVar", "Union", "Boom",
    "opaque_int", "opaque_str", "tick", "it", "site", "Cut",
    "is_int", "is_str", "is_a", "is_str_list",
]


class A:
    def __repr__(self):
        return "A()"


class B(A):
    def __repr__(self):
        return "B()"


class C:
    def __repr__(self):
        return "C()"


@dataclasses.dataclass
class D:
    x: int
    y: str = ""


T = TypeVar("T")
U = TypeVar("U")
TB = TypeVar("TB", bound=A)
TC = TypeVar("TC", int, str)


class G(Generic[T]):
    def __repr__(self):
        return "G()"


class E(enum.Enum):
    a = 1
    b = 2
    c = 3


class IE(enum.IntEnum):
    p = 1
    q = 2


class Perm(enum.Flag):
    """Members combine: Perm.R | Perm.W is a Perm that is none of the three named members."""

    R = 1
    W = 2
    X = 4


N = NewType("N", int)


class TD(TypedDict):
    a: int
    b: str


class TDp(TypedDict, total=False):
    a: int
    b: str


class TDn(TypedDict):
    a: int
    b: NotRequired[str]


class HasX(Protocol):
    x: int


class SupportsClose(Protocol):
    def close(self) -> None: ...


class WithX:
    x: int = 0

    def __repr__(self):
        return "WithX()"


class Closer:
    def close(self) -> None:
        pass

    def __repr__(self):
        return "Closer()"


class Tr:
    """No __bool__/__len__: instances of exactly this class are always truthy."""


class TrSub(Tr):
    def __bool__(self) -> bool:
        return False


class R0: ...
class R1: ...
class R2: ...
class R3: ...


class Boom(Exception):
    pass


class Suppress:
    def __enter__(self) -> None:
        return None

    def __exit__(self, typ: object = None, exc: object = None, tb: object = None) -> bool:
        # declared as possibly suppressing; at run time only the vocabulary's Boom is swallowed
        return isinstance(exc, Boom)


class NoSuppress:
    def __enter__(self) -> None:
        return None

    def __exit__(self, *args: object) -> None:
        return None


_script = []


def cond() -> bool:
    """Opaque condition; the harness installs a script."""
    if _script:
        return bool(_script.pop(0))
    return False


def call() -> None:
    """Opaque call; may raise Boom when the script says so."""
    if _script:
        if _script.pop(0):
            raise Boom()
    return None


def use(x: object) -> None:
    return None


def opaque_int() -> int:
    return 0


def opaque_str() -> str:
    return ""


def ident(x: T) -> T:
    return x


def first(xs: "list[T]") -> T:
    return xs[0]


def pair(x: T, y: U) -> "tuple[T, U]":
    return (x, y)


def apply_fn(f: "Callable[[T], U]", x: T) -> U:
    return f(x)


class Cut(BaseException):
    """Raised by tick() to cut `while True` loops during scripted execution."""


_ticks = [0]


def tick() -> None:
    _ticks[0] += 1
    if _ticks[0] > 3:
        _cut[0] = True  # everything observed from here on is an artefact of the cut
        raise Cut()


def it() -> "list[int]":
    """Opaque iterable of 0-2 elements (two script bits)."""
    n = 0
    if _script:
        n += 1 if _script.pop(0) else 0
    if _script:
        n += 1 if _script.pop(0) else 0
    return list(range(n))


def site(x: object, n: int) -> None:
    """use() with a site id, for the reaching-definitions harness."""
    if not _cut[0]:
        _trace.append((n, x))


_trace = []
_cut = [False]


# ----------------------------------------------------------------- narrowing helpers (C01/C02)
from typing_extensions import TypeGuard, TypeIs  # noqa: E402


def is_int(x: object) -> TypeIs[int]:
    return isinstance(x, int)


def is_str(x: object) -> TypeIs[str]:
    return isinstance(x, str)


def is_a(x: object) -> TypeIs[A]:
    return isinstance(x, A)


def is_str_list(x: "list[object]") -> TypeGuard["list[str]"]:
    return all(isinstance(e, str) for e in x)


# ----------------------------------------------------------------- non-literal *args / **kwargs sources


def kwmap_int() -> "dict[str, int]":
    return {"qq": 1}


def kwmap_str() -> "dict[str, str]":
    return {"qq": "s"}


def seq_int() -> "list[int]":
    return [1, 2]


def seq_str() -> "list[str]":
    return ["s"]


# ----------------------------------------------------------------- user generics over builtin containers

KT = TypeVar("KT")
VT = TypeVar("VT")


class Rev(Dict[VT, KT], Generic[KT, VT]):
    """Generic[...] is not the first base and lists the parameters in the other order:
    Rev[int, str] is a dict[str, int]."""

    def __repr__(self):
        return f"Rev({dict.__repr__(self)})"


class Fwd(Generic[KT, VT], Dict[KT, VT]):
    """Fwd[int, str] is a dict[int, str]."""

    def __repr__(self):
        return f"Fwd({dict.__repr__(self)})"


class IntKeyed(Dict[int, VT]):
    """IntKeyed[str] is a dict[int, str]."""

    def __repr__(self):
        return f"IntKeyed({dict.__repr__(self)})"


class LS(List[T]):
    def __repr__(self):
        return f"LS({list.__repr__(self)})"


T_co = TypeVar("T_co", covariant=True)


class Pops(Protocol[T]):
    """Structural and generic: list[int] is a Pops[int] (list.pop returns the element type)."""

    def pop(self) -> T: ...


class NodeP(Protocol):
    """Two protocols that refer to each other: the recursion closes through a cycle of length two."""

    def edge(self) -> "EdgeP": ...


class EdgeP(Protocol):
    def target(self) -> "NodeP": ...


class MyNode:
    def edge(self) -> "MyEdge":
        return MyEdge()

    def __repr__(self):
        return "MyNode()"

    def __eq__(self, other):
        return type(other) is MyNode

    def __hash__(self):
        return 7


class MyEdge:
    def target(self) -> "MyNode":
        return MyNode()

    def __repr__(self):
        return "MyEdge()"

    def __eq__(self, other):
        return type(other) is MyEdge

    def __hash__(self):
        return 8


class _DynMeta(type):
    def __getattr__(cls, name):
        if name == "Inner":
            return A
        raise AttributeError(name)


class Dyn(metaclass=_DynMeta):
    """`Dyn.Inner` is the class A, served by the metaclass's __getattr__ (not stored in any __dict__)."""


class _Anything:
    """Compares equal to every object (like unittest.mock.ANY)."""

    def __eq__(self, other):
        return True

    def __ne__(self, other):
        return False

    def __hash__(self):
        return 0

    def __repr__(self):
        return "ANYTHING"


ANYTHING = _Anything()
SENTINEL = object()
NAN = float("nan")


class FSub(float):
    """A float subclass: promoted to complex like float itself."""

    def __repr__(self):
        return f"FSub({float.__repr__(self)})"


class ISub(int):
    """An int subclass: promoted to float and complex like int itself."""

    def __repr__(self):
        return f"ISub({int.__repr__(self)})"


class TDk(TypedDict):
    """Keys that no generated parameter is called."""

    kx: int
    ky: str
